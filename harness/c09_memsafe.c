/*
 * C09 -- receiving and processing arbitrary input is memory-safe and
 * resource-exact.
 *
 * Closed driver of regp_ref.h: the allocator hands out exact-size heap blocks
 * (ASan red zones at both ends) and keeps a ledger; the backend fills the
 * whole announced block on reads and reads the whole announced payload on
 * writes; sources and sinks are finite scripts with call budgets.
 * Families (each exhaustive within its bound):
 *   i   frame lengths around the receive capacity, both transports/semantics
 *   ii  read block sizes 0..capacity+8
 *   iii allocation outcome scripts over three consecutive request frames
 *   iv  corpus frames x every position x substitution octet; truncations;
 *       two-frame concatenations; TCP length prefixes
 *   v   every octet string of length 0..3 over the substitution alphabet
 *   vi  hard source error at every octet position, hard sink error at every
 *       reply octet, crossed with allocation failure and one stream mutation
 *   vii a valid write request, then an undecodable stream, received into ONE
 *       reused RPMaybeFrame and processed by a lenient caller
 *   viii every reply kind (the four replies regp_recv sends itself, the replies
 *       of regp_process incl. every backend verdict) x a sink that answers
 *       EAGAIN / EINTR / a short write / a zero-length write / a hard error at
 *       every call position (and a second such answer behind it), octet and
 *       chunk sinks, strict and lenient caller
 *   ix  frame lengths straddling 2^15, 2^16, 2^31, 2^32 (lazily generated
 *       streams): too large for the block, or just fitting a large block;
 *       reads of 2^16 -+ 1 octets from a large block
 *   x   tcp + chunk source offering its own buffer: every cutting of the first
 *       frame of a stream into pieces (up to 2/3 piece boundaries, every
 *       uniform limit on the size of a read) x allocation failure per
 *       reception x allocator kind x block large / exact / one octet short
 * Allocation failure is scripted per reception (every allocator call made
 * during the k-th regp_recv fails), not per allocator call.  That a valid
 * request which fits is served is C06's sentence: a request answered in another
 * way ends in the class request-refused and is held to well-formed replies,
 * memory safety, the hang clause and the ledger only.
 * Families i and iii also run on "tcp + chunk source offering a scratch buffer
 * (getbuffer extension)": the frame then reaches the receiver in chunks of up
 * to 64 octets instead of octet by octet.
 *
 * The capacity of a block (how much of it the receiver keeps for itself is the
 * library's business) is learned from the library's own answers
 * (regp_ref.h: drv_learn_capacity): "fits" / "too large" are relative to it;
 * block - sizeof(RPFrame) only places the enumerated windows.  The largest
 * read a block serves and the buffer size its transmit-overflow responses
 * carry are learned the same way (learn_read_limit) and must agree with each
 * other.  Memory safety (ASan), hangs and the ledger do not depend on any of it.
 */
#include "mc.h"
#include "regp_ref.h"

static struct drv D;
static bool g_th;

static const unsigned char SUBST[13] = { 0x00, 0x01, 0x03, 0x07, 0x0c, 0x10, 0x7f, 0x80, 0xc0, 0xdb, 0xdc, 0xdd, 0xff };

/* ---- allocation failure, per reception ------------------------------------------------------ */
/* "Allocation failure at every allocation": the unit is the reception, not the
 * allocator call.  Bit k of g_rfail makes EVERY allocator call made during the
 * k-th regp_recv of the case's instance fail (a receiver that asks again after
 * a refusal is refused again); calls made outside regp_recv are served.
 * g_rfailed records in which receptions a call was in fact refused (a receiver
 * that needs no block for a reception meets no failure there). */
static unsigned g_rfail, g_rfailed;
static int g_rix;
static bool g_in_recv;

static int
c09_alloc(void *driver, void **m, size_t n)
{
    struct drv *d = driver;
    if (g_in_recv && g_rix >= 0 && g_rix < 32 && (g_rfail & (1u << g_rix))) {
        g_rfailed |= 1u << g_rix;
        d->allocs++;
        *m = NULL;
        return -ENOMEM;
    }
    return drv_alloc(driver, m, n);
}

/* the case's instance: the closed driver of regp_ref.h behind this allocator */
static void
c09_init(struct drv *d, bool tcp, bool m16, size_t blocksize, int srcmode)
{
    drv_init_ex(d, tcp, m16, blocksize, srcmode);
    d->alloc = (BlockAllocator)MAKE_GENERIC_BLOCKALLOC(d, c09_alloc, drv_free, blocksize);
    g_rfail = g_rfailed = 0;
    g_rix = -1;
    g_in_recv = false;
}

static int
c09_recv(struct drv *d, RPMaybeFrame *mf)
{
    g_rix++;
    g_in_recv = true;
    const int rc = regp_recv(&d->p, mf);
    g_in_recv = false;
    return rc;
}

struct result {
    int rrc[3], prc[3], errid[3];
    bool hadframe[3];
    int nframes;
};

/* "receive, process if a frame was returned, free if a frame was returned",
 * repeated while the source has octets left (at most 3 times) */
static void
serve(struct drv *d, const unsigned char *wire, size_t wn, int maxframes, struct result *r)
{
    drv_feed(d, wire, wn);
    memset(r, 0, sizeof *r);
    for (int k = 0; k < maxframes; ++k) {
        RPMaybeFrame mf;
        memset(&mf, 0, sizeof mf);
        r->rrc[k] = c09_recv(d, &mf);
        r->errid[k] = mf.error.id;
        r->hadframe[k] = mf.frame != NULL;
        if (r->rrc[k] >= 0)
            r->prc[k] = regp_process(&d->p, &mf);
        if (mf.frame != NULL)
            regp_free(&d->p, mf.frame);
        mc_trans(3);
        r->nframes = k + 1;
        if (d->inpos >= d->inlen || r->rrc[k] < 0)
            break;
    }
}

/* always-demanded clauses; returns false after a recorded failure */
static bool
safety(struct drv *d, const char *what)
{
    if (d->overrun) {
        mc_fail("C09/hang", "%s: driver call budget exceeded (the library keeps polling)", what);
        return false;
    }
    if (!drv_balanced(d)) {
        mc_fail("C09/block-released-exactly-once", "%s: allocs=%d frees=%d still live=%d double/foreign frees=%d", what, d->allocs, d->frees, d->nlive,
                d->bad_frees);
        return false;
    }
    return true;
}

/* decode the reply stream; -1 if not well-formed */
static int
replies_buf(const unsigned char *wire, size_t wn, bool tcp, struct rframe *out, unsigned char *scratch)
{
    struct rr_frames fr;
    const int n = rr_unframe(tcp, wire, wn, scratch, &fr);
    if (n < 0)
        return -1;
    for (int i = 0; i < n; ++i)
        if (!rr_reply_ok(rr_verdict(scratch + fr.off[i], fr.len[i], &out[i]), &out[i]))
            return -1;
    return n;
}

static int
replies(struct drv *d, bool tcp, struct rframe *out, unsigned char *scratch)
{
    return replies_buf(d->out, d->outlen, tcp, out, scratch);
}

static size_t
frame_wire(bool tcp, const unsigned char *raw, size_t n, unsigned char *wire)
{
    return tcp ? rr_lenprefix(wire, raw, n) : rr_slip(wire, raw, n);
}

static int g_opt_override = -1; /* >= 0: checksum option bits to declare instead of the transport's */

static size_t
build_request(unsigned char *raw, bool tcp, bool write, bool w16, uint32_t addr, uint32_t bsize, size_t plen, uint16_t seq)
{
    static unsigned char pl[2048];
    for (size_t i = 0; i < plen; ++i)
        pl[i] = (unsigned char)(0x21 + i);
    struct rframe f;
    memset(&f, 0, sizeof f);
    f.type = write ? RT_WRITE_REQ : RT_READ_REQ;
    f.options = (w16 ? RO_W16 : 0) | (tcp ? 0 : RO_HDCRC) | ((!tcp && plen) ? RO_PLCRC : 0);
    if (g_opt_override >= 0)
        f.options = (w16 ? RO_W16 : 0) | (unsigned)g_opt_override;
    f.seq = seq;
    f.addr = addr;
    f.bsize = bsize;
    f.payload = pl;
    f.plen = plen;
    return rr_build(raw, &f, false, false);
}

/* transport variants: 0 serial (octet source), 1 tcp (chunk source), 2 tcp
 * with a chunk source that offers a scratch buffer */
static const char *TVN[3] = { "serial", "tcp", "tcp+getbuffer" };
static int
tv_srcmode(int tv)
{
    return tv == 0 ? DRV_SRC_OCTET : tv == 1 ? DRV_SRC_CHUNK : DRV_SRC_CHUNK_GETBUFFER;
}

static size_t blocksizes[16];
static int nblocksizes;

/* the same ledger behind the allocator's other calling convention (a slab
 * allocator is not told the block size) */
static int
drv_slab_alloc(void *driver, void **m)
{
    struct drv *d = driver;
    return c09_alloc(driver, m, d->blocksize);
}

static void
use_slab(struct drv *d)
{
    d->alloc = (BlockAllocator)MAKE_SLAB_BLOCKALLOC(d, drv_slab_alloc, drv_free, d->blocksize);
}

/* ---- learned capacity ---------------------------------------------------------------- */
/* the capacity the library shows for blocks of bsz octets (0: it receives no
 * frame at all into such a block); false if its answers define none (serial:
 * or if serial frames do not meet the same limit): the capacity clauses are
 * then left out and the run is not exhaustive */
static bool
learned_capacity(size_t bsz, bool serial, size_t *cap)
{
    static bool capped, capped_far;
    const size_t c = drv_learn_capacity(bsz);
    *cap = 0;
    if (c == DRV_CAP_UNKNOWN || (serial && !drv_capacity_serial_agrees(bsz))) {
        if (!capped)
            mc_cap("the library's answers define no capacity for some block sizes: capacity clauses left out there");
        capped = true;
        return false;
    }
    /* "Not received" means "too large for the block" only if the block is the
     * reason: a receiver with a larger block must receive the request of c + 1
     * octets (a receiver may refuse requests on other grounds, e.g. a limit on
     * the size of writes; what it then shows is not a capacity). */
    {
        static signed char verified[DRV_CAPCACHE]; /* 0 not asked, 1 yes, -1 no */
        signed char v = bsz < DRV_CAPCACHE ? verified[bsz] : 0;
        if (v == 0) {
            v = drv_probe_accepts(true, 2 * bsz + 128, c ? c + 1 : 12) == 1 ? 1 : -1;
            if (bsz < DRV_CAPCACHE)
                verified[bsz] = v;
        }
        if (v < 0) {
            if (!capped)
                mc_cap("the library's answers define no capacity for some block sizes: capacity clauses left out there");
            capped = true;
            return false;
        }
    }
    const size_t guess = bsz - sizeof(RPFrame);
    if (c != 0 && (c > guess + 2 || c + 6 < guess) && !capped_far) {
        mc_cap("learned capacity far from block - sizeof(RPFrame): the enumerated windows may not straddle it");
        capped_far = true;
    }
    *cap = c;
    return true;
}

/* ---- family i: frame lengths around the receive capacity ------------------------ */
static void
family_i(void)
{
    unsigned char raw[RR_MAXFRAME], wire[2 * RR_MAXFRAME + 16], scratch[DRV_WIRE];
    for (int bi = 0; bi < nblocksizes; ++bi)
        for (int tv = 0; tv < 3; ++tv)
            for (int w16 = 0; w16 < 2; ++w16) {
                const bool tcp = tv != 0;
                const size_t bsz = blocksizes[bi];
                const size_t guess = bsz - sizeof(RPFrame); /* places the window; the oracle uses the learned capacity */
                const size_t hdr = tcp ? 12 : 16;
                for (size_t plen = 1;; ++plen) {
                    /* raw frame length L = hdr + payload */
                    const size_t L = hdr + plen;
                    if (L > guess + 6 && plen > 4)
                        break;
                    if (w16 && (plen & 1))
                        continue;
                    if (!mc_case("i blocksize=%zu (descriptor + %zu) %s write%d frame-length=%zu", bsz, guess, TVN[tv], w16 ? 16 : 8, L))
                        continue;
                    size_t cap;
                    const bool known = learned_capacity(bsz, !tcp, &cap);
                    mc_log("learned capacity of blocks of %zu octets: %s%zu", bsz, known ? "" : "none; first guess ", known ? cap : guess);
                    const size_t n = build_request(raw, tcp, true, w16, 0x40, (uint32_t)(plen / (w16 ? 2 : 1)), plen, 0x0a0b);
                    const size_t wn = frame_wire(tcp, raw, n, wire);
                    c09_init(&D, tcp, w16, bsz, tv_srcmode(tv));
                    struct result r;
                    serve(&D, wire, wn, 1, &r);
                    mc_log("recv rc=%d error.id=%d frame=%d process rc=%d calls=%d reply=%zu", r.rrc[0], r.errid[0], r.hadframe[0], r.prc[0], D.ncalls, D.outlen);
                    mc_log_hex("reply", D.out, D.outlen);
                    const char *outcome = "?";
                    if (safety(&D, "frame around capacity")) {
                        struct rframe rp[8];
                        const int nr = replies(&D, tcp, rp, scratch);
                        if (!known) {
                            outcome = "capacity-not-learned";
                            if (nr < 0)
                                mc_fail("C09/reply-well-formed", "the reply is not a sequence of valid frames");
                        } else if (n <= cap) {
                            /* that a request which fits is served is C06's sentence; here: if it
                             * is executed the backend gets the announced payload, and whatever is
                             * sent back is well-formed */
                            if (nr < 0)
                                mc_fail("C09/reply-well-formed", "the reply to a write request of %zu octets (capacity %zu) is not a sequence of valid frames", n, cap);
                            else if (D.ncalls == 1 && nr == 1 && rp[0].type == RT_WRITE_RESP && rp[0].meta == 0) {
                                outcome = "fits-executed";
                                if (D.call[0].bsize != plen / (w16 ? 2u : 1u) || D.call[0].plen != plen)
                                    mc_fail("C09/payload-as-announced", "backend got %zu payload octets for an announced block of %zu", D.call[0].plen, plen);
                            } else
                                outcome = D.ncalls == 0 ? "request-refused" : "request-answered-otherwise";
                        } else {
                            outcome = cap >= 16 ? "overflow-answered" : "overflow-tiny-block";
                            if (D.ncalls != 0)
                                mc_fail("C09/overflowing-frame-not-executed", "frame of %zu octets exceeds capacity %zu but caused %d memory accesses", n, cap, D.ncalls);
                            else if (nr < 0)
                                mc_fail("C09/reply-well-formed", "the reply to an overflowing frame is not a sequence of valid frames");
                            else if (cap >= 16) {
                                /* enough of the header was received to answer properly */
                                if (nr != 1 || rp[0].type != RT_WRITE_RESP || rp[0].meta != 4 || rp[0].seq != 0x0a0b || rp[0].addr != 0x40)
                                    mc_fail("C09/rx-overflow-response", "frame of %zu octets into capacity %zu: %d replies, first type=%u code=%u seq=%04x (expected one receive-overflow response)",
                                            n, cap, nr, nr > 0 ? rp[0].type : 99, nr > 0 ? rp[0].meta : 99, nr > 0 ? rp[0].seq : 0);
                            }
                        }
                    }
                    drv_release(&D);
                    mc_end(true, mc.cur_failed ? "failed" : outcome);
                }
            }
}

/* ---- family ii: read block sizes around the transmit limit ------------------------ */
/* Request header variants.  The library's own encoder produces the two
 * standard ones; the others declare checksum words the transport does not
 * mandate.  The reference accepts them with the verdict sets {valid, bad
 * header} (transport rule violated) and, for a payload checksum without
 * payload, {valid, bad header, bad payload checksum}: a receiver may refuse
 * them, but if it executes them the answer area starts behind the header that
 * was actually received (12, 14 or 16 octets). */
static const struct hv {
    bool tcp;
    int opts; /* -1: the transport's own */
    size_t hdr;
    bool standard;
    const char *name;
} HV[] = {
    { false, -1, 14, true, "serial" },
    { true, -1, 12, true, "tcp" },
    { true, RO_PLCRC, 14, false, "tcp+payload-crc-bit" },
    { true, RO_HDCRC, 14, false, "tcp+header-crc" },
    { true, RO_HDCRC | RO_PLCRC, 16, false, "tcp+both-crc" },
    { false, RO_HDCRC | RO_PLCRC, 16, false, "serial+payload-crc-bit" },
};

/* What a block size shows about reads (one request header variant, one word
 * size): the largest read it serves and the buffer size its transmit-overflow
 * responses carry.  Learned by probing, like the capacity. */
struct readlimit {
    bool tried;
    bool known;        /* maxserved: a read of that many units is served, one of one more is not */
    uint32_t maxserved;
    bool have_t;       /* tval: the value carried by the transmit-overflow response to maxserved + 1 units */
    uint32_t tval;
};

static struct drv PR; /* the probing instance; its replies are captured here (large reads) */
static unsigned char prbuf[1u << 18], prscratch[1u << 18];
static size_t prlen;
static bool prover;

static ssize_t
prsink_chunk(void *drv, const void *data, size_t n)
{
    (void)drv;
    if (prlen + n > sizeof prbuf) {
        prover = true;
        return -EIO;
    }
    memcpy(prbuf + prlen, data, n);
    prlen += n;
    return (ssize_t)n;
}

/* 1: served (one read response, acknowledged, one memory access); 2: one
 * transmit-overflow response with a four octet value (*val); 0: anything else */
static int
probe_read(bool tcp, int opts, bool w16, size_t bsz, uint32_t bs, uint32_t *val)
{
    unsigned char raw[64], wire[160];
    g_opt_override = opts;
    const size_t n = build_request(raw, tcp, false, w16, 0x1000, bs, 0, 0x0c0d);
    g_opt_override = -1;
    const size_t wn = tcp ? rr_lenprefix(wire, raw, n) : rr_slip(wire, raw, n);
    struct drv *const saved = g_drv;
    int res = 0;
    drv_init(&PR, tcp, w16, bsz, !tcp);
    {
        Source src;
        Sink snk;
        if (tcp)
            chunk_source_init(&src, drv_src_chunk, &PR);
        else
            octet_source_init(&src, drv_src_octet, &PR);
        chunk_sink_init(&snk, prsink_chunk, &PR);
        regp_use_channel(&PR.p, tcp ? RP_EP_TCP : RP_EP_SERIAL, src, snk);
        prlen = 0;
        prover = false;
    }
    drv_feed(&PR, wire, wn);
    RPMaybeFrame mf;
    memset(&mf, 0, sizeof mf);
    const int rrc = regp_recv(&PR.p, &mf);
    if (rrc >= 0)
        (void)regp_process(&PR.p, &mf);
    if (mf.frame != NULL)
        regp_free(&PR.p, mf.frame);
    if (!PR.overrun && !prover) {
        struct rr_frames fr;
        struct rframe f;
        if (rr_unframe(tcp, prbuf, prlen, prscratch, &fr) == 1 && rr_reply_ok(rr_verdict(prscratch + fr.off[0], fr.len[0], &f), &f) && f.type == RT_READ_RESP) {
            if (f.meta == 0 && PR.ncalls == 1)
                res = 1;
            else if (f.meta == 5 && f.plen == 4 && PR.ncalls == 0) {
                *val = (uint32_t)f.payload[0] << 24 | (uint32_t)f.payload[1] << 16 | (uint32_t)f.payload[2] << 8 | f.payload[3];
                res = 2;
            }
        }
    }
    drv_release(&PR);
    g_drv = saved;
    return res;
}

static void
learn_read_limit(struct readlimit *rl, bool tcp, int opts, size_t hdr, bool w16, size_t bsz, size_t cap)
{
    if (rl->tried)
        return;
    memset(rl, 0, sizeof *rl);
    rl->tried = true;
    const size_t ws = w16 ? 2 : 1;
    uint32_t v = 0;
    /* the capture buffer of the probing instance bounds what can be observed */
    if (bsz > sizeof prbuf / 2 - 64)
        return;
    /* first guess: what fits the learned capacity behind the request's header */
    if (cap >= hdr) {
        const uint32_t g = (uint32_t)((cap - hdr) / ws);
        if (probe_read(tcp, opts, w16, bsz, g, &v) == 1 && probe_read(tcp, opts, w16, bsz, g + 1, &v) != 1) {
            rl->known = true;
            rl->maxserved = g;
        }
    }
    if (!rl->known) {
        uint32_t lo = 0, hi = (uint32_t)(bsz / ws) + 1; /* lo: served, hi: not served */
        if (probe_read(tcp, opts, w16, bsz, lo, &v) != 1 || probe_read(tcp, opts, w16, bsz, hi, &v) == 1)
            return;
        while (hi - lo > 1) {
            const uint32_t mid = lo + (hi - lo) / 2;
            if (probe_read(tcp, opts, w16, bsz, mid, &v) == 1)
                lo = mid;
            else
                hi = mid;
        }
        rl->known = true;
        rl->maxserved = lo;
    }
    if (probe_read(tcp, opts, w16, bsz, rl->maxserved + 1, &v) == 2) {
        rl->have_t = true;
        rl->tval = v;
    }
}

/* the oracle for one read request that was received into a block of bsz
 * octets; cap_known/cap: the learned capacity; rl: what the block size shows
 * about reads (may be NULL); returns the outcome class */
static const char *
judge_read(int nr, const struct rframe *rp, int ncalls, uint32_t bs, size_t ws, bool cap_known, size_t cap, size_t bsz, bool standard, const struct readlimit *rl)
{
    const char *outcome = "?";
    const uint64_t octets = (uint64_t)bs * ws;
    /* Which reads "cannot fit" is for the library to say, through the buffer
     * size its transmit-overflow responses carry: it must not serve a read of
     * more octets than that (and where it puts an answer that does not fit the
     * block, ASan sees).  Below that either answer is right (that a read which
     * fits is served is C06's sentence). */
    const bool beyond_reported_size = rl != NULL && rl->have_t && octets > rl->tval;
    const bool is_read_resp = nr == 1 && rp[0].type == RT_READ_RESP && rp[0].seq == 0x0c0d && rp[0].addr == 0x1000;
    /* That a valid request is served, and answered with the right data, are
     * C06's sentences.  A request the receiver answers in another way (another
     * response code, a meta message, nothing) ends in the class
     * request-refused: well-formed replies, memory safety, hang and the ledger
     * are demanded of it like of everything else. */
    const char *const refused = standard ? (ncalls == 0 ? "request-refused" : "request-answered-otherwise") : "read-variant-refused";
    (void)cap_known;
    (void)cap;
    if (nr < 0)
        mc_fail("C09/reply-well-formed", "the reply to a read request is not a sequence of valid frames");
    else if (!is_read_resp)
        outcome = refused;
    else if (rp[0].meta == 0) {
        outcome = standard ? "read-executed" : "read-variant-executed";
        if (beyond_reported_size)
            mc_fail("C09/tx-overflow-response", "a read of %u units (%llu octets) was acknowledged although the transmit-overflow responses of this block size report a buffer size of %u octets", bs,
                    (unsigned long long)octets, rl->tval);
    } else if (rp[0].meta == 5) {
        outcome = "tx-overflow";
        const uint32_t val = rp[0].plen == 4 ? ((uint32_t)rp[0].payload[0] << 24 | (uint32_t)rp[0].payload[1] << 16 | (uint32_t)rp[0].payload[2] << 8 | rp[0].payload[3]) : 0;
        if (ncalls != 0)
            mc_fail("C09/tx-overflow-response", "transmit overflow reported after %d memory accesses", ncalls);
        /* the buffer size: not more than the block; not less than an answer the
         * library serves from such a block; the same for every read it refuses */
        else if (rp[0].plen != 4 || val > bsz)
            mc_fail("C09/tx-overflow-response", "transmit-overflow response carries %zu octets, value %u; the block has %zu octets", rp[0].plen, val, bsz);
        else if (rl != NULL && rl->known && (uint64_t)rl->maxserved * ws > val)
            mc_fail("C09/tx-overflow-response", "transmit-overflow response reports a buffer size of %u octets, but a read of %u units (%llu octets) is served from such a block", val,
                    rl->maxserved, (unsigned long long)rl->maxserved * ws);
        else if (rl != NULL && rl->have_t && val != rl->tval)
            mc_fail("C09/tx-overflow-response", "transmit-overflow response reports a buffer size of %u octets; the one to a read of %u units reported %u", val, rl->maxserved + 1, rl->tval);
    } else
        outcome = refused;
    return outcome;
}

static void
family_ii(void)
{
    unsigned char raw[64], wire[160], scratch[DRV_WIRE];
    static const uint32_t BIGSZ[] = { 0x7fffffffu, 0x80000000u, 0x80000001u, 0x80000002u, 0x80000008u, 0x80000010u, 0xfffffffeu, 0xffffffffu };
    for (int bi = 0; bi < nblocksizes; ++bi)
        for (unsigned hi = 0; hi < sizeof HV / sizeof *HV; ++hi)
            for (int w16 = 0; w16 < 2; ++w16) {
                const struct hv *hv = &HV[hi];
                const bool tcp = hv->tcp;
                const size_t bsz = blocksizes[bi];
                const size_t guess = bsz - sizeof(RPFrame); /* places the window; the oracle uses the learned capacity */
                const size_t hdr = hv->hdr;
                if (guess < hdr)
                    continue; /* the request itself does not fit: family i */
                const size_t ws = w16 ? 2 : 1;
                const uint32_t nsmall = (uint32_t)((guess + 8) / ws) + 1;
                static struct readlimit RL[16][sizeof HV / sizeof *HV][2];
                struct readlimit *rl = &RL[bi][hi][w16];
                for (uint32_t k = 0; k < nsmall + sizeof BIGSZ / sizeof *BIGSZ; ++k) {
                    /* every size up to capacity+8, then sizes whose octet count needs more than 31 / 32 bits */
                    const uint32_t bs = k < nsmall ? k : BIGSZ[k - nsmall];
                    if (!mc_case("ii blocksize=%zu (descriptor + %zu) %s read%d block-size=%u", bsz, guess, hv->name, w16 ? 16 : 8, bs))
                        continue;
                    size_t cap;
                    const bool known = learned_capacity(bsz, !tcp, &cap);
                    learn_read_limit(rl, tcp, hv->opts, hdr, w16, bsz, known ? cap : guess);
                    mc_log("learned: capacity %s%zu; largest read served %s%u units; buffer size reported %s%u", known ? "" : "none, first guess ", known ? cap : guess,
                           rl->known ? "" : "unknown ", rl->maxserved, rl->have_t ? "" : "unknown ", rl->tval);
                    g_opt_override = hv->opts;
                    const size_t n = build_request(raw, tcp, false, w16, 0x1000, bs, 0, 0x0c0d);
                    g_opt_override = -1;
                    const size_t wn = frame_wire(tcp, raw, n, wire);
                    c09_init(&D, tcp, w16, bsz, tcp ? DRV_SRC_CHUNK : DRV_SRC_OCTET);
                    struct result r;
                    serve(&D, wire, wn, 1, &r);
                    mc_log("recv rc=%d error.id=%d process rc=%d calls=%d reply=%zu", r.rrc[0], r.errid[0], r.prc[0], D.ncalls, D.outlen);
                    const char *outcome = "?";
                    if (safety(&D, "read around the transmit limit")) {
                        struct rframe rp[8];
                        const int nr = replies(&D, tcp, rp, scratch);
                        if (known && n > cap) {
                            /* the request itself does not fit the learned capacity: family i */
                            outcome = "read-request-does-not-fit";
                            if (D.ncalls != 0)
                                mc_fail("C09/overflowing-frame-not-executed", "request of %zu octets exceeds the capacity of %zu octets (learned) but caused %d memory accesses", n, cap, D.ncalls);
                        } else
                            outcome = judge_read(nr, rp, D.ncalls, bs, ws, known, cap, bsz, hv->standard, rl);
                    }
                    drv_release(&D);
                    mc_end(true, mc.cur_failed ? "failed" : outcome);
                }
            }
}

/* ---- family iii: allocation failure scripts ------------------------------------------ */
/* The requests of a stream carry sequence number seq0 + k and address addr0 + k
 * (bit k of kinds: write).  Every request during whose reception the allocator
 * refused (failed, bit k) is owed a busy response that echoes it, and must not
 * reach the memory.  What happens to the other requests is C06's business. */
static bool
judge_busy(const struct drv *d, unsigned failed, int nreq, int kinds, unsigned seq0, uint32_t addr0, int nr, const struct rframe *rp)
{
    for (int k = 0; k < nreq; ++k) {
        if (!((failed >> k) & 1))
            continue;
        const unsigned wt = ((kinds >> k) & 1) ? RT_WRITE_RESP : RT_READ_RESP;
        int j = -1;
        for (int i = 0; i < nr && j < 0; ++i)
            if ((rp[i].type == RT_READ_RESP || rp[i].type == RT_WRITE_RESP) && rp[i].seq == seq0 + (unsigned)k)
                j = i;
        if (j < 0) {
            mc_fail("C09/busy-response", "request %d met an allocation failure: none of the %d replies is a response echoing its sequence number %04x (expected a busy response)", k, nr,
                    seq0 + (unsigned)k);
            return false;
        }
        if (rp[j].type != wt || rp[j].meta != 6 || rp[j].addr != addr0 + (uint32_t)k) {
            mc_fail("C09/busy-response", "request %d met an allocation failure: reply type=%u code=%u seq=%04x addr=%x; expected a busy response echoing the request", k, rp[j].type,
                    rp[j].meta, rp[j].seq, rp[j].addr);
            return false;
        }
        for (int i = 0; i < d->ncalls && i < DRV_MAXCALLS; ++i)
            if (d->call[i].addr == addr0 + (uint32_t)k) {
                mc_fail("C09/busy-not-executed", "request %d met an allocation failure but the memory was accessed at its address %x", k, addr0 + (uint32_t)k);
                return false;
            }
    }
    return true;
}

static void
family_iii(void)
{
    unsigned char raw[3][64], wire[600], scratch[DRV_WIRE];
    for (int slab = 0; slab < 2; ++slab)
    for (int tv = 0; tv < 3; ++tv)
        for (int kinds = 0; kinds < 8; ++kinds)
            for (unsigned mask = 0; mask < 8; ++mask) {
                const bool tcp = tv != 0;
                if (!mc_case("iii %s %s allocator, three requests kinds=%d%d%d allocation-fails=%u%u%u", TVN[tv], slab ? "slab" : "generic", kinds & 1, (kinds >> 1) & 1,
                             (kinds >> 2) & 1, mask & 1, (mask >> 1) & 1, (mask >> 2) & 1))
                    continue;
                size_t wn = 0;
                for (int k = 0; k < 3; ++k) {
                    /* writes of 4 words: the raw frame (20 / 24 octets) is longer than a header, so
                     * that what is kept of it after a failed allocation is a proper prefix */
                    const bool write = (kinds >> k) & 1;
                    const size_t n = build_request(raw[k], tcp, write, true, 0x200 + (uint32_t)k, write ? 4 : 2, write ? 8 : 0, (uint16_t)(0x1100 + k));
                    wn += frame_wire(tcp, raw[k], n, wire + wn);
                }
                c09_init(&D, tcp, true, 128, tv_srcmode(tv));
                if (slab)
                    use_slab(&D);
                g_rfail = mask;
                struct result r;
                serve(&D, wire, wn, 3, &r);
                const char *outcome = mask == 0 ? "alloc-all-ok" : mask == 7 ? "alloc-all-fail" : "alloc-mixed";
                mc_log("%d receive rounds; allocation refused in receptions %u%u%u; %d memory accesses; %zu reply octets", r.nframes, g_rfailed & 1, (g_rfailed >> 1) & 1,
                       (g_rfailed >> 2) & 1, D.ncalls, D.outlen);
                if (safety(&D, "allocation script")) {
                    struct rframe rp[8];
                    const int nr = replies(&D, tcp, rp, scratch);
                    if (nr < 0)
                        mc_fail("C09/reply-well-formed", "allocation script: the octets sent back are not a sequence of valid frames");
                    else
                        judge_busy(&D, g_rfailed, 3, kinds, 0x1100, 0x200, nr, rp);
                }
                drv_release(&D);
                mc_end(true, mc.cur_failed ? "failed" : outcome);
            }
}

/* ---- corpus for iv / vi ------------------------------------------------------------------ */
struct cf {
    unsigned char raw[64];
    size_t n;
    bool tcp, w16;
    const char *name;
};
static struct cf corpus[16];
static int ncorpus;

static void
make_corpus(void)
{
    for (int tcp = 0; tcp < 2; ++tcp) {
        struct cf *c;
        c = &corpus[ncorpus++]; c->tcp = tcp; c->w16 = true; c->name = "read16(2)";
        c->n = build_request(c->raw, tcp, false, true, 0x64, 2, 0, 0x0102);
        c = &corpus[ncorpus++]; c->tcp = tcp; c->w16 = true; c->name = "write16(2)";
        c->n = build_request(c->raw, tcp, true, true, 0x64, 2, 4, 0x0103);
        c = &corpus[ncorpus++]; c->tcp = tcp; c->w16 = false; c->name = "write8(3)";
        c->n = build_request(c->raw, tcp, true, false, 0xc0db, 3, 3, 0xc0db);
        if (g_th) {
            c = &corpus[ncorpus++]; c->tcp = tcp; c->w16 = false; c->name = "read8(40)";
            c->n = build_request(c->raw, tcp, false, false, 0, 40, 0, 0);
        }
    }
}

/* generic oracle for arbitrary streams: safety + well-formed replies.  (How
 * many acknowledgements a stream earns in relation to the backend calls it
 * causes is not a C09 sentence: an implementation may acknowledge a request for
 * zero units without asking the backend.  Family vii keeps its own clause: an
 * undecodable stream is never acknowledged.) */
static bool g_skip_reply_form; /* allocation failure on a frame that is not a request: the statement prescribes no reply form */

static void
check_stream(struct drv *d, bool tcp, const struct result *r, const char *what)
{
    unsigned char scratch[DRV_WIRE];
    struct rframe rp[8];
    if (!safety(d, what))
        return;
    if (g_skip_reply_form)
        return;
    const int nr = replies(d, tcp, rp, scratch);
    if (nr < 0) {
        mc_fail("C09/reply-well-formed", "%s: the octets sent back are not a sequence of valid frames", what);
        return;
    }
    int acks = 0;
    for (int i = 0; i < nr; ++i)
        if ((rp[i].type == RT_READ_RESP || rp[i].type == RT_WRITE_RESP) && rp[i].meta == 0)
            acks++;
    if (acks > d->ncalls)
        mc_log("%s: %d acknowledgements for %d memory accesses (observation only)", what, acks, d->ncalls);
    (void)r;
}

/* "reported as bad header encoding": to the caller - regp_recv returns a
 * negative code or sets error.id (the values are not fixed by the statement) -
 * or to the peer: the header-encoding meta message among the replies */
static bool
short_frame_reported(int rrc, int errid, int nr, const struct rframe *rp)
{
    if (rrc < 0 || errid != 0)
        return true;
    for (int i = 0; i < nr; ++i)
        if (rp[i].type == RT_META && rp[i].meta == 1)
            return true;
    return false;
}

/* ---- family iv --------------------------------------------------------------------------- */
static void
family_iv(void)
{
    unsigned char x[80], wire[400];
    char what[120];
    for (int ci = 0; ci < ncorpus; ++ci) {
        const struct cf *c = &corpus[ci];
        /* substitutions */
        for (size_t pos = 0; pos < c->n; ++pos) {
            if (!mc_case("iv %s %s substitution at octet %zu x 13 octets x allocation ok/fail", c->tcp ? "tcp" : "serial", c->name, pos))
                continue;
            int nvalid = 0;
            for (int si = 0; si < 13 && !mc.cur_failed; ++si)
                for (int af = 0; af < 2 && !mc.cur_failed; ++af) {
                    memcpy(x, c->raw, c->n);
                    x[pos] = SUBST[si];
                    const size_t wn = frame_wire(c->tcp, x, c->n, wire);
                    c09_init(&D, c->tcp, c->w16, 128, c->tcp ? DRV_SRC_CHUNK : DRV_SRC_OCTET);
                    g_rfail = af ? 1 : 0;
                    struct result r;
                    serve(&D, wire, wn, 2, &r);
                    snprintf(what, sizeof what, "octet %zu <- %02x, allocation %s", pos, SUBST[si], af ? "fails" : "ok");
                    mc_log("%s: rc=%d error.id=%d calls=%d reply=%zu", what, r.rrc[0], r.errid[0], D.ncalls, D.outlen);
                    {
                        struct rframe mf;
                        rr_verdict(x, c->n, &mf);
                        g_skip_reply_form = af && !(mf.type == RT_READ_REQ || mf.type == RT_WRITE_REQ);
                    }
                    check_stream(&D, c->tcp, &r, what);
                    g_skip_reply_form = false;
                    nvalid += D.ncalls;
                    drv_release(&D);
                }
            mc_end(true, mc.cur_failed ? "failed" : nvalid ? "mutation-some-executed" : "mutation-none-executed");
        }
        /* thorough: two substitutions (deviation bound 2 on the stream) */
        if (g_th)
            for (size_t p1 = 0; p1 < c->n; ++p1) {
                if (!mc_case("iv %s %s two substitutions, first at octet %zu x later positions x 13x13 octets", c->tcp ? "tcp" : "serial", c->name, p1))
                    continue;
                int nvalid = 0;
                for (size_t p2 = p1 + 1; p2 < c->n && !mc.cur_failed; ++p2)
                    for (int s1 = 0; s1 < 13 && !mc.cur_failed; ++s1)
                        for (int s2 = 0; s2 < 13 && !mc.cur_failed; ++s2) {
                            memcpy(x, c->raw, c->n);
                            x[p1] = SUBST[s1];
                            x[p2] = SUBST[s2];
                            const size_t wn = frame_wire(c->tcp, x, c->n, wire);
                            c09_init(&D, c->tcp, c->w16, 128, c->tcp ? DRV_SRC_CHUNK : DRV_SRC_OCTET);
                            struct result r;
                            serve(&D, wire, wn, 2, &r);
                            snprintf(what, sizeof what, "octet %zu <- %02x and octet %zu <- %02x", p1, SUBST[s1], p2, SUBST[s2]);
                            check_stream(&D, c->tcp, &r, what);
                            nvalid += D.ncalls;
                            drv_release(&D);
                        }
                mc_end(true, mc.cur_failed ? "failed" : nvalid ? "mutation-some-executed" : "mutation-none-executed");
            }
        /* truncations: the stream simply ends (TCP: prefix announces more than arrives) */
        if (mc_case("iv %s %s every truncation of the wire stream", c->tcp ? "tcp" : "serial", c->name)) {
            const size_t wn = frame_wire(c->tcp, c->raw, c->n, wire);
            for (size_t len = 0; len < wn && !mc.cur_failed; ++len) {
                c09_init(&D, c->tcp, c->w16, 128, c->tcp ? DRV_SRC_CHUNK : DRV_SRC_OCTET);
                struct result r;
                serve(&D, wire, len, 2, &r);
                snprintf(what, sizeof what, "wire stream cut after %zu of %zu octets", len, wn);
                mc_log("%s: rc=%d error.id=%d calls=%d", what, r.rrc[0], r.errid[0], D.ncalls);
                check_stream(&D, c->tcp, &r, what);
                if (!mc.cur_failed && D.ncalls != 0)
                    mc_fail("C09/truncated-not-executed", "%s: %d memory accesses", what, D.ncalls);
                drv_release(&D);
            }
            mc_end(true, mc.cur_failed ? "failed" : "truncations");
        }
        /* raw frames shorter than a header (serial: well delimited; tcp: well prefixed) */
        if (mc_case("iv %s %s every raw frame prefix shorter than the frame", c->tcp ? "tcp" : "serial", c->name)) {
            for (size_t len = 0; len < c->n && !mc.cur_failed; ++len) {
                if (len == 0 && c->tcp)
                    continue;
                const size_t wn = frame_wire(c->tcp, c->raw, len, wire);
                c09_init(&D, c->tcp, c->w16, 128, c->tcp ? DRV_SRC_CHUNK : DRV_SRC_OCTET);
                struct result r;
                serve(&D, wire, wn, 1, &r);
                snprintf(what, sizeof what, "frame of %zu octets (prefix of %s)", len, c->name);
                mc_log("%s: rc=%d error.id=%d calls=%d reply=%zu", what, r.rrc[0], r.errid[0], D.ncalls, D.outlen);
                check_stream(&D, c->tcp, &r, what);
                if (!mc.cur_failed && len < 12) {
                    unsigned char scratch[DRV_WIRE];
                    struct rframe rp[8];
                    const int nr = replies(&D, c->tcp, rp, scratch);
                    /* reported as bad header encoding: to the caller (regp_recv returns a negative
                     * code or sets error.id; which value the statement does not say) or to the peer
                     * (the header-encoding meta message); either channel will do. */
                    if (D.ncalls != 0)
                        mc_fail("C09/short-frame-is-bad-header", "%s: rc=%d error.id=%d calls=%d (a frame shorter than a header was executed)", what, r.rrc[0], r.errid[0], D.ncalls);
                    else if (!short_frame_reported(r.rrc[0], r.errid[0], nr, rp))
                        mc_fail("C09/short-frame-is-bad-header", "%s: rc=%d (no error) error.id=0 and %d replies, none the header-encoding meta message (expected the frame to be reported as bad header encoding)",
                                what, r.rrc[0], nr);
                }
                drv_release(&D);
            }
            mc_end(true, mc.cur_failed ? "failed" : "short-frames");
        }
        /* two-frame concatenations */
        for (int cj = 0; cj < ncorpus; ++cj) {
            if (corpus[cj].tcp != c->tcp || corpus[cj].w16 != c->w16)
                continue;
            if (!mc_case("iv %s %s then %s on one stream", c->tcp ? "tcp" : "serial", c->name, corpus[cj].name))
                continue;
            size_t wn = frame_wire(c->tcp, c->raw, c->n, wire);
            wn += frame_wire(c->tcp, corpus[cj].raw, corpus[cj].n, wire + wn);
            c09_init(&D, c->tcp, c->w16, 128, c->tcp ? DRV_SRC_CHUNK : DRV_SRC_OCTET);
            struct result r;
            serve(&D, wire, wn, 3, &r);
            check_stream(&D, c->tcp, &r, "two frames");
            /* (that both are served is C06's sentence) */
            mc_log("two valid requests: %d rounds, %d memory accesses", r.nframes, D.ncalls);
            drv_release(&D);
            mc_end(true, mc.cur_failed ? "failed" : "two-frames");
        }
    }
    /* TCP length prefixes over a short stream */
    static const uint64_t PFX[] = { 0, 1, 11, 12, 13, 0x7f, 0x80, 0x3fff, 0x4000, 0xffffffffull, 0x100000000ull, 0xffffffffffffffffull };
    for (unsigned pi = 0; pi < sizeof PFX / sizeof *PFX; ++pi)
        for (int tail = 0; tail < 3; ++tail) {
            if (!mc_case("iv tcp length prefix %llu followed by %s", (unsigned long long)PFX[pi], tail == 0 ? "nothing" : tail == 1 ? "a 12-octet read request" : "200 octets"))
                continue;
            size_t wn = rr_varint(wire, PFX[pi]);
            if (tail == 1) {
                memcpy(wire + wn, corpus[ncorpus / 2].raw, 12);
                wn += 12;
            } else if (tail == 2) {
                memset(wire + wn, 0x01, 200);
                wn += 200;
            }
            c09_init(&D, true, true, 128, DRV_SRC_CHUNK);
            struct result r;
            serve(&D, wire, wn, 2, &r);
            mc_log("rc=%d error.id=%d calls=%d reply=%zu", r.rrc[0], r.errid[0], D.ncalls, D.outlen);
            check_stream(&D, true, &r, "length prefix");
            drv_release(&D);
            mc_end(true, mc.cur_failed ? "failed" : "tcp-prefix");
        }
}

/* ---- family v: every short octet string as a frame ---------------------------------------- */
static void
family_v(void)
{
    unsigned char s[4], wire[16];
    char what[64];
    for (int tcp = 0; tcp < 2; ++tcp)
        for (int len = 0; len <= 3; ++len) {
            int total = 1;
            for (int i = 0; i < len; ++i)
                total *= 13;
            for (int hi = 0; hi < (len >= 2 ? 13 * 13 : 1); ++hi) {
                if (!mc_case("v %s raw octet strings of length %d, chunk %d", tcp ? "tcp" : "serial", len, hi))
                    continue;
                const int per = total / (len >= 2 ? 13 * 13 : 1);
                for (int lo = 0; lo < per && !mc.cur_failed; ++lo) {
                    int x = hi * per + lo;
                    for (int i = 0; i < len; ++i) {
                        s[i] = SUBST[x % 13];
                        x /= 13;
                    }
                    /* the string is the wire stream itself (delimiters and prefixes included in the alphabet) */
                    memcpy(wire, s, (size_t)len);
                    c09_init(&D, tcp, true, 128, tcp ? DRV_SRC_CHUNK : DRV_SRC_OCTET);
                    struct result r;
                    serve(&D, wire, (size_t)len, 3, &r);
                    snprintf(what, sizeof what, "stream %02x %02x %02x (len %d)", s[0], s[1], s[2], len);
                    check_stream(&D, tcp, &r, what);
                    if (!mc.cur_failed && D.ncalls != 0)
                        mc_fail("C09/garbage-not-executed", "%s: %d memory accesses", what, D.ncalls);
                    drv_release(&D);
                }
                mc_end(true, mc.cur_failed ? "failed" : "short-strings");
            }
        }
}

/* ---- family vi: endpoint errors x allocation failure x one stream mutation --------------- */
static void
family_vi(void)
{
    unsigned char x[80], wire[400];
    char what[160];
    for (int ci = 0; ci < ncorpus; ++ci) {
        const struct cf *c = &corpus[ci];
        const size_t wn0 = frame_wire(c->tcp, c->raw, c->n, wire);
        /* source error at every octet position (and one past the end = clean end) */
        for (size_t pos = 0; pos <= wn0; ++pos) {
            if (!mc_case("vi %s %s source error at octet %zu x {EIO,EPIPE} x allocation ok/fail x mutation", c->tcp ? "tcp" : "serial", c->name, pos))
                continue;
            for (int e = 0; e < 2 && !mc.cur_failed; ++e)
                for (int af = 0; af < 2 && !mc.cur_failed; ++af)
                    for (int mut = -1; mut < (g_th ? (int)c->n : 4) && !mc.cur_failed; ++mut) {
                        memcpy(x, c->raw, c->n);
                        if (mut >= 0)
                            x[(size_t)mut * (g_th ? 1 : c->n / 4) % c->n] ^= 0x40;
                        const size_t wn = frame_wire(c->tcp, x, c->n, wire);
                        c09_init(&D, c->tcp, c->w16, 128, c->tcp ? DRV_SRC_CHUNK : DRV_SRC_OCTET);
                        g_rfail = af ? 1 : 0;
                        D.src_err_at = (long)pos;
                        D.src_err = e ? -EPIPE : -EIO;
                        struct result r;
                        serve(&D, wire, wn, 1, &r);
                        snprintf(what, sizeof what, "source fails with %d at octet %zu, allocation %s, mutation %d", D.src_err, pos, af ? "fails" : "ok", mut);
                        mc_log("%s: rc=%d error.id=%d frame=%d calls=%d", what, r.rrc[0], r.errid[0], r.hadframe[0], D.ncalls);
                        if (safety(&D, what)) {
                            if (D.src_err_hit && r.rrc[0] >= 0)
                                mc_fail("C09/channel-error-returned", "%s: regp_recv returned %d (expected a channel error)", what, r.rrc[0]);
                            else if (D.src_err_hit && D.ncalls != 0)
                                mc_fail("C09/truncated-not-executed", "%s: %d memory accesses", what, D.ncalls);
                        }
                        drv_release(&D);
                    }
            mc_end(true, mc.cur_failed ? "failed" : "source-errors");
        }
        /* sink error at every reply octet */
        if (mc_case("vi %s %s sink error at every reply octet x valid/corrupted request x allocation ok/fail", c->tcp ? "tcp" : "serial", c->name)) {
            for (int variant = 0; variant < 3 && !mc.cur_failed; ++variant)
                for (int af = 0; af < 2 && !mc.cur_failed; ++af)
                    for (long spos = 0; spos < 60 && !mc.cur_failed; ++spos) {
                        memcpy(x, c->raw, c->n);
                        if (variant == 1)
                            x[0] ^= 0x0f; /* header encoding fault -> meta reply from regp_recv */
                        if (variant == 2)
                            x[c->n - 1] ^= 0x01; /* checksum/payload fault */
                        const size_t wn = frame_wire(c->tcp, x, c->n, wire);
                        c09_init(&D, c->tcp, c->w16, 128, c->tcp ? DRV_SRC_CHUNK : DRV_SRC_OCTET);
                        g_rfail = af ? 1 : 0;
                        D.sink_err_at = spos;
                        struct result r;
                        serve(&D, wire, wn, 1, &r);
                        snprintf(what, sizeof what, "sink fails at reply octet %ld, request variant %d, allocation %s", spos, variant, af ? "fails" : "ok");
                        mc_log("%s: recv rc=%d process rc=%d reply=%zu", what, r.rrc[0], r.prc[0], D.outlen);
                        /* the statement says nothing about how a failing sink is reported (meta
                         * messages are best effort): memory safety, no hang, balanced ledger */
                        (void)safety(&D, what);
                        drv_release(&D);
                    }
            mc_end(true, mc.cur_failed ? "failed" : "sink-errors");
        }
    }
}

/* ---- family vii: a failed reception must not leave a frame behind ---------------------------- */
/* One RPMaybeFrame object is reused, as in the service loop the library
 * documents (regp_recv; on rc < 0 error handling; regp_process; regp_free).
 * First a valid write request is received and executed.  Then the stream is
 * undecodable: if regp_recv returns a channel error and the caller goes on to
 * regp_process (documented as lenient), nothing may be executed or
 * acknowledged -- the earlier frame is not this reception's. */
static void
family_vii(void)
{
    unsigned char raw[64], w1[200], w2[64], scratch[DRV_WIRE];
    for (int tcp = 0; tcp < 2; ++tcp)
        for (int hold = 0; hold < 2; ++hold)
            for (int bad = 0; bad < 4; ++bad) {
                static const char *BADN[2][4] = { { "db 00 c0 (undecodable escape)", "db (ends inside an escape)", "the same request cut before its delimiter", "01 02 db ff c0" },
                                                  { "prefix 20, five octets", "prefix of eleven continuation octets", "prefix 12, nothing", "the same request cut after 9 octets" } };
                if (!mc_case("vii %s write16(2) then %s on one reused RPMaybeFrame, first frame %s", tcp ? "tcp" : "serial", BADN[tcp][bad],
                             hold ? "still held by the caller" : "freed before"))
                    continue;
                const size_t n = build_request(raw, tcp, true, true, 0x300, 2, 4, 0x2200);
                const size_t n1 = frame_wire(tcp, raw, n, w1);
                size_t n2 = 0;
                if (!tcp) {
                    static const unsigned char B0[] = { 0xdb, 0x00, 0xc0 }, B1[] = { 0xdb }, B3[] = { 0x01, 0x02, 0xdb, 0xff, 0xc0 };
                    if (bad == 0) { memcpy(w2, B0, sizeof B0); n2 = sizeof B0; }
                    else if (bad == 1) { memcpy(w2, B1, sizeof B1); n2 = sizeof B1; }
                    else if (bad == 2) { memcpy(w2, w1, n1 - 1); n2 = n1 - 1; }
                    else { memcpy(w2, B3, sizeof B3); n2 = sizeof B3; }
                } else {
                    if (bad == 0) { w2[0] = 20; memset(w2 + 1, 0x01, 5); n2 = 6; }
                    else if (bad == 1) { memset(w2, 0xff, 11); n2 = 11; }
                    else if (bad == 2) { w2[0] = 12; n2 = 1; }
                    else { memcpy(w2, w1, 9); n2 = 9; }
                }
                c09_init(&D, tcp, true, 128, tcp ? DRV_SRC_CHUNK : DRV_SRC_OCTET);
                RPMaybeFrame mf;
                memset(&mf, 0, sizeof mf);
                drv_feed(&D, w1, n1);
                const int rrc1 = c09_recv(&D, &mf);
                const int prc1 = rrc1 >= 0 ? regp_process(&D.p, &mf) : 0;
                RPFrame *held = mf.frame;
                const int calls1 = D.ncalls;
                if (!hold && mf.frame != NULL) {
                    regp_free(&D.p, mf.frame);
                    held = NULL;
                }
                /* second reception into the same object */
                drv_feed(&D, w2, n2);
                D.ncalls = 0;
                D.outlen = 0;
                const int rrc2 = c09_recv(&D, &mf);
                int prc2 = 0;
                const bool failed = rrc2 < 0;
                prc2 = regp_process(&D.p, &mf); /* the lenient caller */
                if (!failed && mf.frame != NULL && mf.frame != held)
                    regp_free(&D.p, mf.frame);
                mc_trans(5);
                mc_log("first: recv rc=%d process rc=%d calls=%d; second: recv rc=%d error.id=%d process rc=%d calls=%d reply=%zu", rrc1, prc1, calls1, rrc2,
                       mf.error.id, prc2, D.ncalls, D.outlen);
                /* (that the valid write request is served is C06's sentence) */
                if (D.ncalls != 0)
                    mc_fail("C09/failed-reception-not-executed", "reception %s (rc=%d) was followed by %d memory accesses in regp_process", failed ? "failed" : "of garbage", rrc2,
                            D.ncalls);
                else {
                    struct rframe rp[8];
                    const int nr = replies(&D, tcp, rp, scratch);
                    for (int i = 0; i < nr; ++i)
                        if ((rp[i].type == RT_READ_RESP || rp[i].type == RT_WRITE_RESP) && rp[i].meta == 0)
                            mc_fail("C09/no-ack-without-access", "an undecodable stream was acknowledged");
                }
                if (held != NULL)
                    regp_free(&D.p, held);
                if (!mc.cur_failed)
                    (void)safety(&D, "reused maybe-frame");
                drv_release(&D);
                mc_end(true, mc.cur_failed ? "failed" : failed ? "stale-frame-not-reused" : "garbage-classified");
            }
}

/* ---- scripted sink, lazily generated source (families viii, ix) --------------------------------- */
/* What a sink may answer to a write: a request to retry, fewer octets taken
 * than offered, none taken, a hard error.  (A zero-length answer is only given
 * to offers of several octets: what it means for a single octet is between
 * sink_put_octet and its callers, C17 / C08.) */
enum { SA_EAGAIN, SA_EINTR, SA_SHORT1, SA_SHORTM1, SA_ZERO, SA_EIO, SA_COUNT };
static const char *SANAME[SA_COUNT] = { "EAGAIN", "EINTR", "a short write of one octet", "a short write of all but one octet", "a zero-length write", "EIO" };

static unsigned char xbuf[1u << 18], xscratch[1u << 18];
static struct xsink {
    size_t outlen;
    long calls, budget;
    long at[2];
    int ans[2];
    int nhit;
    bool hard_hit, overrun;
} X;

static ssize_t
xsink_take(const unsigned char *d, size_t n)
{
    if (X.outlen + n > sizeof xbuf) {
        X.overrun = true;
        return -EIO;
    }
    memcpy(xbuf + X.outlen, d, n);
    X.outlen += n;
    return (ssize_t)n;
}

static ssize_t
xsink_chunk(void *drv, const void *data, size_t n)
{
    (void)drv;
    const long k = X.calls++;
    if (k >= X.budget) {
        X.overrun = true;
        return -EIO;
    }
    for (int i = 0; i < 2; ++i)
        if (k == X.at[i]) {
            X.nhit++;
            switch (X.ans[i]) {
            case SA_EAGAIN: return -EAGAIN;
            case SA_EINTR: return -EINTR;
            case SA_EIO: X.hard_hit = true; return -EIO;
            case SA_ZERO:
                if (n > 1)
                    return 0;
                break;
            case SA_SHORT1: return xsink_take(data, n > 1 ? 1 : n);
            case SA_SHORTM1: return xsink_take(data, n > 1 ? n - 1 : n);
            }
        }
    return xsink_take(data, n);
}

static int
xsink_octet(void *drv, unsigned char c)
{
    return (int)xsink_chunk(drv, &c, 1);
}

static bool
sink_answer_applies(bool octet_sink, int a)
{
    /* an octet sink takes the octet or does not */
    return !(octet_sink && (a == SA_SHORT1 || a == SA_SHORTM1 || a == SA_ZERO));
}

static unsigned char lazy_scratch[65536];
static struct lazy {
    unsigned char pre[48], post[4];
    size_t npre, npost;
    unsigned char fill;
    uint64_t nfill, pos, total, calls, budget;
    bool overrun;
} LZ;

/* the stream pre | fill x nfill | post, produced on demand */
static ssize_t
lazy_chunk(void *drv, void *outp, size_t n)
{
    (void)drv;
    unsigned char *out = outp;
    if (++LZ.calls > LZ.budget) {
        LZ.overrun = true;
        return -EIO;
    }
    if (LZ.pos >= LZ.total)
        return -ENODATA;
    uint64_t k = LZ.total - LZ.pos;
    if (k > n)
        k = n;
    size_t i = 0;
    while (i < k) {
        const uint64_t q = LZ.pos + i;
        if (q < LZ.npre)
            out[i++] = LZ.pre[q];
        else if (q < LZ.npre + LZ.nfill) {
            uint64_t run = LZ.npre + LZ.nfill - q;
            if (run > k - i)
                run = k - i;
            memset(out + i, LZ.fill, (size_t)run);
            i += (size_t)run;
        } else
            out[i++] = LZ.post[q - LZ.npre - LZ.nfill];
    }
    LZ.pos += k;
    return (ssize_t)k;
}

static int
lazy_octet(void *drv, void *out)
{
    return (int)lazy_chunk(drv, out, 1);
}

static ByteBuffer
lazy_getbuffer(Source *s)
{
    (void)s;
    ByteBuffer b;
    byte_buffer_use(&b, lazy_scratch, sizeof lazy_scratch);
    return b;
}

/* (re)connect instance d: source as srcmode says (lazy: the generated stream
 * instead of d's input), sink = the scripted sink */
static void
connect_x(struct drv *d, bool tcp, int srcmode, bool lazy, bool octet_sink, long at1, int a1, long at2, int a2)
{
    Source src;
    Sink snk;
    if (srcmode == DRV_SRC_OCTET)
        octet_source_init(&src, lazy ? lazy_octet : drv_src_octet, d);
    else
        chunk_source_init(&src, lazy ? lazy_chunk : drv_src_chunk, d);
    if (srcmode == DRV_SRC_CHUNK_GETBUFFER)
        src.ext.getbuffer = lazy ? lazy_getbuffer : drv_src_getbuffer;
    memset(&X, 0, sizeof X);
    X.at[0] = at1; X.ans[0] = a1;
    X.at[1] = at2; X.ans[1] = a2;
    X.budget = 1L << 20;
    if (octet_sink)
        octet_sink_init(&snk, xsink_octet, &X);
    else
        chunk_sink_init(&snk, xsink_chunk, &X);
    regp_use_channel(&d->p, tcp ? RP_EP_TCP : RP_EP_SERIAL, src, snk);
}

static bool
safety_x(struct drv *d, const char *what)
{
    if (X.overrun || LZ.overrun) {
        mc_fail("C09/hang", "%s: driver call budget exceeded (the library keeps calling the %s)", what, X.overrun ? "sink" : "source");
        return false;
    }
    return safety(d, what);
}

static size_t
build_frame(unsigned char *raw, unsigned type, unsigned options, uint16_t seq, uint32_t addr, uint32_t bsize, const unsigned char *pl, size_t plen, bool break_hd, bool break_pl)
{
    struct rframe f;
    memset(&f, 0, sizeof f);
    f.type = type;
    f.options = options;
    f.seq = seq;
    f.addr = addr;
    f.bsize = bsize;
    f.payload = pl;
    f.plen = plen;
    return rr_build(raw, &f, break_hd, break_pl);
}

/* ---- family viii: every reply kind x sink answers ------------------------------------------------- */
enum { EK_OTHER, EK_RXOVERFLOW, EK_BUSY, EK_TXOVERFLOW, EK_META_ENC };
enum { SC_RXOVERFLOW, SC_BUSY, SC_EMPTY, SC_SHORT, SC_BADVERSION, SC_HDRCRC, SC_PLCRC, SC_PLSIZE, SC_WORDSIZE, SC_TXOVERFLOW, SC_READ_ACK, SC_WRITE_ACK,
       SC_READ_VERDICT, SC_WRITE_VERDICT = SC_READ_VERDICT + 11, SC_COUNT = SC_WRITE_VERDICT + 11 };

static const char *
scen_name(int sc)
{
    static const char *N[] = { "a write request too large for the block", "a read request meeting an allocation failure", "an empty frame", "a frame of five octets",
                               "a read request with a wrong version", "a read request with a wrong header checksum", "a write request with a wrong payload checksum",
                               "a write request with a payload longer than announced", "an octet read request to sixteen bit memory", "a read request too large to answer",
                               "a read request", "a write request" };
    static char buf[64];
    if (sc < SC_READ_VERDICT)
        return N[sc];
    snprintf(buf, sizeof buf, "a %s request answered by the memory with code %d", sc < SC_WRITE_VERDICT ? "read" : "write", (sc - SC_READ_VERDICT) % 11 + 1);
    return buf;
}

struct scen {
    unsigned char wire[400];
    size_t wn;
    unsigned fail_mask;
    RPResponse verdict;
    int expect;
    unsigned rtype;
};

#define VIII_SEQ 0x3344
#define VIII_ADDR 0x204u

static void
scen_build(int sc, bool tcp, struct scen *s)
{
    static unsigned char pl[128];
    unsigned char raw[200];
    for (size_t i = 0; i < sizeof pl; ++i)
        pl[i] = (unsigned char)(0x21 + i);
    memset(s, 0, sizeof *s);
    s->verdict = RP_RESP_ACK;
    s->expect = EK_OTHER;
    const unsigned std = tcp ? 0 : RO_HDCRC, stdpl = tcp ? 0 : (RO_HDCRC | RO_PLCRC);
    size_t n = 0;
    switch (sc) {
    case SC_RXOVERFLOW:
        n = build_frame(raw, RT_WRITE_REQ, RO_W16 | stdpl, VIII_SEQ, VIII_ADDR, 60, pl, 120, false, false);
        s->expect = EK_RXOVERFLOW; s->rtype = RT_WRITE_RESP;
        break;
    case SC_BUSY:
        n = build_frame(raw, RT_READ_REQ, RO_W16 | std, VIII_SEQ, VIII_ADDR, 2, NULL, 0, false, false);
        s->fail_mask = 1; s->expect = EK_BUSY; s->rtype = RT_READ_RESP;
        break;
    case SC_EMPTY:
        n = 0;
        s->expect = EK_META_ENC;
        break;
    case SC_SHORT:
        (void)build_frame(raw, RT_READ_REQ, RO_W16 | std, VIII_SEQ, VIII_ADDR, 2, NULL, 0, false, false);
        n = 5;
        s->expect = EK_META_ENC;
        break;
    case SC_BADVERSION:
        n = build_frame(raw, RT_READ_REQ, RO_W16 | std, VIII_SEQ, VIII_ADDR, 2, NULL, 0, false, false);
        raw[1] |= 0x01;
        break;
    case SC_HDRCRC:
        n = build_frame(raw, RT_READ_REQ, RO_W16 | RO_HDCRC, VIII_SEQ, VIII_ADDR, 2, NULL, 0, true, false);
        break;
    case SC_PLCRC:
        n = build_frame(raw, RT_WRITE_REQ, RO_W16 | std | RO_PLCRC, VIII_SEQ, VIII_ADDR, 2, pl, 4, false, true);
        break;
    case SC_PLSIZE:
        n = build_frame(raw, RT_WRITE_REQ, RO_W16 | stdpl, VIII_SEQ, VIII_ADDR, 3, pl, 4, false, false);
        break;
    case SC_WORDSIZE:
        n = build_frame(raw, RT_READ_REQ, std, VIII_SEQ, VIII_ADDR, 2, NULL, 0, false, false);
        break;
    case SC_TXOVERFLOW:
        n = build_frame(raw, RT_READ_REQ, RO_W16 | std, VIII_SEQ, VIII_ADDR, 100, NULL, 0, false, false);
        s->expect = EK_TXOVERFLOW; s->rtype = RT_READ_RESP;
        break;
    default: {
        const bool write = sc == SC_WRITE_ACK || sc >= SC_WRITE_VERDICT;
        if (write)
            n = build_frame(raw, RT_WRITE_REQ, RO_W16 | stdpl, VIII_SEQ, VIII_ADDR, 2, pl, 4, false, false);
        else
            n = build_frame(raw, RT_READ_REQ, RO_W16 | std, VIII_SEQ, VIII_ADDR, 2, NULL, 0, false, false);
        if (sc >= SC_READ_VERDICT)
            s->verdict = (RPResponse)((sc - SC_READ_VERDICT) % 11 + 1);
    } break;
    }
    s->wn = frame_wire(tcp, raw, n, s->wire);
}

struct vrun {
    int rrc, prc, errid;
    bool hadframe;
};

/* the documented serving loop, once: receive; process (a strict caller only
 * after a successful receive, a lenient one always); release what was returned */
static void
viii_run(const struct scen *s, int tv, bool octet_sink, int style, long at1, int a1, long at2, int a2, struct vrun *v)
{
    const bool tcp = tv != 0;
    const bool lenient = style & 1;
    c09_init(&D, tcp, true, 128, tv_srcmode(tv));
    if (style & 2)
        use_slab(&D);
    g_rfail = s->fail_mask;
    D.verdict = s->verdict;
    D.verdict_addr = VIII_ADDR;
    connect_x(&D, tcp, tv_srcmode(tv), false, octet_sink, at1, a1, at2, a2);
    drv_feed(&D, s->wire, s->wn);
    RPMaybeFrame mf;
    memset(&mf, 0, sizeof mf);
    memset(v, 0, sizeof *v);
    v->rrc = c09_recv(&D, &mf);
    v->errid = mf.error.id;
    v->hadframe = mf.frame != NULL;
    if (v->rrc >= 0 || lenient)
        v->prc = regp_process(&D.p, &mf);
    if (mf.frame != NULL)
        regp_free(&D.p, mf.frame);
    mc_trans(3);
}

static long g_answered, g_gaveup;

static bool
viii_judge(const struct scen *s, int tv, const struct vrun *v, const char *what)
{
    const bool tcp = tv != 0;
    mc_log("%s: recv rc=%d error.id=%d frame=%d process rc=%d calls=%d sink calls=%ld reply=%zu", what, v->rrc, v->errid, v->hadframe, v->prc, D.ncalls, X.calls, X.outlen);
    bool ok = safety_x(&D, what);
    /* The statement quantifies over octet streams, block sizes and allocation
     * failures, not over sink answers: the form of the reply is demanded of
     * the exchange in which no sink answer deviated (and the sink took every
     * octet).  An exchange the sink disturbed (retry request, short or
     * zero-length write, hard error) gets memory safety, the hang clause and
     * the ledger only: the library may send its own replies best effort. */
    const bool disturbed = X.nhit > 0;
    if (ok && !X.hard_hit && v->rrc >= 0 && v->prc >= 0) {
        g_answered++;
        if (!disturbed) {
            struct rframe rp[8];
            const int nr = replies_buf(xbuf, X.outlen, tcp, rp, xscratch);
            if (s->expect == EK_RXOVERFLOW || s->expect == EK_BUSY || s->expect == EK_TXOVERFLOW) {
                const unsigned code = s->expect == EK_RXOVERFLOW ? 4 : s->expect == EK_BUSY ? 6 : 5;
                if (nr != 1 || rp[0].type != s->rtype || rp[0].meta != code || rp[0].seq != VIII_SEQ || rp[0].addr != VIII_ADDR) {
                    mc_fail(s->expect == EK_RXOVERFLOW ? "C09/rx-overflow-response" : s->expect == EK_BUSY ? "C09/busy-response" : "C09/tx-overflow-response",
                            "%s: receive and process reported success; %d replies, first type=%u code=%u seq=%04x addr=%x (expected one response with code %u echoing the request)", what, nr,
                            nr > 0 ? rp[0].type : 99, nr > 0 ? rp[0].meta : 99, nr > 0 ? rp[0].seq : 0, nr > 0 ? rp[0].addr : 0, code);
                    ok = false;
                }
            } else if (nr < 0) {
                mc_fail("C09/reply-well-formed", "%s: the octets sent back are not a sequence of valid frames", what);
                ok = false;
            } else if (s->expect == EK_META_ENC && !short_frame_reported(v->rrc, v->errid, nr, rp)) {
                mc_fail("C09/short-frame-is-bad-header", "%s: error.id=0 and %d replies, none the header-encoding meta message (expected the frame to be reported as bad header encoding)", what, nr);
                ok = false;
            }
        }
    } else if (ok)
        g_gaveup++;
    drv_release(&D);
    return ok;
}

static void
family_viii(void)
{
    char what[220];
    for (int sc = 0; sc < SC_COUNT; ++sc)
        for (int tv = 0; tv < 3; ++tv)
            for (int osink = 0; osink < 2; ++osink)
                for (int a1 = 0; a1 < SA_COUNT; ++a1) {
                    if (!sink_answer_applies(osink, a1))
                        continue;
                    if (!mc_case("viii %s: %s, the %s sink answers %s at call k, alone and with a second deviation at %s; strict/lenient caller x generic/slab allocator", TVN[tv], scen_name(sc),
                                 osink ? "octet" : "chunk", SANAME[a1], g_th ? "every later call" : "call k+1"))
                        continue;
                    struct scen s;
                    struct vrun v;
                    scen_build(sc, tv != 0, &s);
                    long reached = 0;
                    bool ok = true;
                    g_answered = g_gaveup = 0;
                    for (int style = 0; style < 4 && ok; ++style) {
                        /* style: strict / lenient caller x generic / slab allocator */
                        static const char *STYLE[4] = { "strict caller, generic allocator", "lenient caller, generic allocator", "strict caller, slab allocator", "lenient caller, slab allocator" };
                        /* the undisturbed exchange first */
                        viii_run(&s, tv, osink, style, -1, 0, -1, 0, &v);
                        snprintf(what, sizeof what, "%s, sink undisturbed, %s", scen_name(sc), STYLE[style]);
                        ok = viii_judge(&s, tv, &v, what);
                        for (long at = 0; ok; ++at) {
                            viii_run(&s, tv, osink, style, at, a1, -1, 0, &v);
                            if (X.nhit == 0) {
                                drv_release(&D);
                                break; /* the exchange needs fewer sink calls */
                            }
                            reached++;
                            snprintf(what, sizeof what, "%s, sink answers %s at call %ld, %s", scen_name(sc), SANAME[a1], at, STYLE[style]);
                            ok = viii_judge(&s, tv, &v, what);
                            for (int a2 = 0; a2 < SA_COUNT && ok; ++a2) {
                                if (!sink_answer_applies(osink, a2))
                                    continue;
                                for (long at2 = at + 1; ok && (g_th || at2 == at + 1); ++at2) {
                                    viii_run(&s, tv, osink, style, at, a1, at2, a2, &v);
                                    if (X.nhit < 2) {
                                        drv_release(&D);
                                        break;
                                    }
                                    snprintf(what, sizeof what, "%s, sink answers %s at call %ld and %s at call %ld, %s", scen_name(sc), SANAME[a1], at, SANAME[a2], at2, STYLE[style]);
                                    ok = viii_judge(&s, tv, &v, what);
                                }
                            }
                        }
                    }
                    mc_log("%ld call positions reached; %ld exchanges reported success, %ld gave up or met a hard error", reached, g_answered, g_gaveup);
                    /* outcome classes name the script, not the library's reaction to it */
                    mc_end(reached > 0, mc.cur_failed ? "failed" : a1 == SA_EIO ? "reply-sink-hard-error" : a1 == SA_ZERO ? "reply-sink-zero-length-write"
                           : (a1 == SA_SHORT1 || a1 == SA_SHORTM1) ? "reply-sink-short-write" : "reply-sink-retry-request");
                }
}

/* ---- family ix: lengths that straddle 2^15, 2^16, 2^31, 2^32 ------------------------------------------- */
#define IX_SEQ 0x5566
#define IX_ADDR 0x40u

/* a write request (octet semantics, or sixteen bit if w16) of raw length L on
 * the lazily generated stream; returns the number of payload octets */
static uint64_t
lazy_write_request(bool tcp, bool w16, uint64_t L)
{
    memset(&LZ, 0, sizeof LZ);
    const size_t hdr = tcp ? 12 : 16;
    const uint64_t plen = L - hdr;
    LZ.fill = 0x55;
    LZ.nfill = plen;
    unsigned char raw[16];
    /* payload checksum of fill x plen, without holding the payload */
    uint16_t plcrc = 0;
    if (!tcp)
        for (uint64_t i = 0; i < plen; ++i)
            plcrc = rr_crc(plcrc, &LZ.fill, 1);
    const unsigned options = (w16 ? RO_W16 : 0) | (tcp ? 0 : (RO_HDCRC | RO_PLCRC));
    const unsigned motv = (RT_WRITE_REQ << 4) | (options << 8);
    const uint32_t bsize = (uint32_t)(plen / (w16 ? 2u : 1u));
    size_t n = 0;
    raw[n++] = (unsigned char)(motv >> 8);
    raw[n++] = (unsigned char)motv;
    raw[n++] = IX_SEQ >> 8;
    raw[n++] = IX_SEQ & 0xff;
    for (int sh = 24; sh >= 0; sh -= 8)
        raw[n++] = (unsigned char)(IX_ADDR >> sh);
    for (int sh = 24; sh >= 0; sh -= 8)
        raw[n++] = (unsigned char)(bsize >> sh);
    if (!tcp) {
        const unsigned char pc[2] = { (unsigned char)(plcrc >> 8), (unsigned char)plcrc };
        const uint16_t c = rr_crc(rr_crc(0, raw, 12), pc, 2);
        raw[n++] = (unsigned char)(c >> 8);
        raw[n++] = (unsigned char)c;
        raw[n++] = pc[0];
        raw[n++] = pc[1];
    }
    if (tcp) {
        LZ.npre = rr_varint(LZ.pre, L);
        memcpy(LZ.pre + LZ.npre, raw, n);
        LZ.npre += n;
    } else {
        /* (the header octets used here need no escaping: checked) */
        for (size_t i = 0; i < n; ++i)
            if (raw[i] == 0xc0 || raw[i] == 0xdb)
                mc_broken("family ix: header octet %zu needs SLIP escaping", i);
        memcpy(LZ.pre, raw, n);
        LZ.npre = n;
        LZ.post[0] = 0xc0;
        LZ.npost = 1;
    }
    LZ.total = LZ.npre + LZ.nfill + LZ.npost;
    LZ.budget = LZ.total + 1000;
    return plen;
}

static void
family_ix(void)
{
    const size_t F = sizeof(RPFrame);
    /* (a) too large for the block */
    static const struct { uint64_t len; int tier; bool slow_paths; } LEN[] = {
        /* tier 0: quick and thorough; slow_paths: also octet by octet (serial, tcp without scratch buffer) */
        { (1ull << 15) - 1, 0, true }, { 1ull << 15, 0, true }, { (1ull << 15) + 1, 0, true },
        { (1ull << 16) - 1, 0, true }, { 1ull << 16, 0, true }, { (1ull << 16) + 1, 0, true },
        { (1ull << 24) - 1, 1, true }, { 1ull << 24, 1, true }, { (1ull << 24) + 1, 1, true },
        { (1ull << 31) - 1, 0, false }, { 1ull << 31, 0, false }, { (1ull << 31) + 1, 0, false }, { (1ull << 31) + 12345, 0, false },
        { (1ull << 32) - 1, 0, false }, { 1ull << 32, 0, false }, { (1ull << 32) + 1, 0, false }, { (1ull << 32) + 77, 0, false },
        { (1ull << 32) + (1ull << 31), 1, false }, { (1ull << 32) + (1ull << 31) + 1, 1, false }, { (1ull << 33) + 1, 1, false },
    };
    static const size_t BS[2] = { 128, 4096 };
    for (unsigned li = 0; li < sizeof LEN / sizeof *LEN; ++li)
        for (int tv = 0; tv < 3; ++tv)
            for (int bi = 0; bi < 2; ++bi) {
                if (LEN[li].tier > (g_th ? 1 : 0))
                    continue;
                if (tv != 2 && !LEN[li].slow_paths)
                    continue;
                const bool tcp = tv != 0;
                if (!mc_case("ix blocksize=%zu %s write8 frame-length=%llu (generated stream)", BS[bi], TVN[tv], (unsigned long long)LEN[li].len))
                    continue;
                c09_init(&D, tcp, false, BS[bi], tv_srcmode(tv));
                (void)lazy_write_request(tcp, false, LEN[li].len);
                connect_x(&D, tcp, tv_srcmode(tv), true, false, -1, 0, -1, 0);
                RPMaybeFrame mf;
                memset(&mf, 0, sizeof mf);
                const int rrc = c09_recv(&D, &mf);
                const int prc = rrc >= 0 ? regp_process(&D.p, &mf) : 0;
                const int errid = mf.error.id;
                if (mf.frame != NULL)
                    regp_free(&D.p, mf.frame);
                mc_trans(3);
                mc_log("recv rc=%d error.id=%d process rc=%d calls=%d consumed=%llu of %llu reply=%zu", rrc, errid, prc, D.ncalls, (unsigned long long)LZ.pos,
                       (unsigned long long)LZ.total, X.outlen);
                mc_log_hex("reply", xbuf, X.outlen < 64 ? X.outlen : 64);
                if (safety_x(&D, "frame far beyond the capacity")) {
                    struct rframe rp[8];
                    const int nr = replies_buf(xbuf, X.outlen, tcp, rp, xscratch);
                    if (D.ncalls != 0)
                        mc_fail("C09/overflowing-frame-not-executed", "frame of %llu octets exceeds capacity %zu but caused %d memory accesses", (unsigned long long)LEN[li].len,
                                BS[bi] - F, D.ncalls);
                    else if (nr < 0)
                        mc_fail("C09/reply-well-formed", "the reply to an overflowing frame is not a sequence of valid frames");
                    else if (nr != 1 || rp[0].type != RT_WRITE_RESP || rp[0].meta != 4 || rp[0].seq != IX_SEQ || rp[0].addr != IX_ADDR)
                        mc_fail("C09/rx-overflow-response", "frame of %llu octets into capacity %zu: recv rc=%d error.id=%d, %d replies, first type=%u code=%u seq=%04x (expected one receive-overflow response)",
                                (unsigned long long)LEN[li].len, BS[bi] - F, rrc, errid, nr, nr > 0 ? rp[0].type : 99, nr > 0 ? rp[0].meta : 99, nr > 0 ? rp[0].seq : 0);
                }
                drv_release(&D);
                mc_end(true, mc.cur_failed ? "failed" : "giant-overflow-answered");
            }
    /* (b) a frame of 2^16 -+ 1 octets that just fits a large block */
    for (int d = -1; d <= 1; ++d)
        for (int slack = 0; slack < 2; ++slack)
            for (int tv = 0; tv < 3; ++tv)
                for (int w16 = 0; w16 < 2; ++w16) {
                    const bool tcp = tv != 0;
                    const uint64_t L = (uint64_t)((1L << 16) + d);
                    const size_t hdr = tcp ? 12 : 16;
                    if (w16 && ((L - hdr) & 1))
                        continue;
                    if (!mc_case("ix block with a capacity of %zu octets (learned) %s write%d frame-length=%llu (generated stream)", (size_t)L + (size_t)slack, TVN[tv],
                                 w16 ? 16 : 8, (unsigned long long)L))
                        continue;
                    /* the block size whose capacity the library shows to be L + slack */
                    const size_t fitted = drv_block_for_capacity_wide((size_t)L + (size_t)slack, !tcp);
                    mc_log("block size with a learned capacity of %zu octets: %zu", (size_t)L + (size_t)slack, fitted);
                    if (fitted == 0) {
                        static bool capped;
                        if (!capped)
                            mc_cap("no block size with a learned capacity of 2^16 -+ 1 (+1) octets: large fitting frames left out");
                        capped = true;
                        mc_end(false, "capacity-not-learned");
                        continue;
                    }
                    c09_init(&D, tcp, w16, fitted, tv_srcmode(tv));
                    const uint64_t plen = lazy_write_request(tcp, w16, L);
                    connect_x(&D, tcp, tv_srcmode(tv), true, false, -1, 0, -1, 0);
                    RPMaybeFrame mf;
                    memset(&mf, 0, sizeof mf);
                    const int rrc = c09_recv(&D, &mf);
                    const int prc = rrc >= 0 ? regp_process(&D.p, &mf) : 0;
                    const int errid = mf.error.id;
                    if (mf.frame != NULL)
                        regp_free(&D.p, mf.frame);
                    mc_trans(3);
                    mc_log("recv rc=%d error.id=%d process rc=%d calls=%d reply=%zu", rrc, errid, prc, D.ncalls, X.outlen);
                    bool served = false;
                    if (safety_x(&D, "large frame that fits")) {
                        struct rframe rp[8];
                        const int nr = replies_buf(xbuf, X.outlen, tcp, rp, xscratch);
                        /* that it is served is C06's sentence; if it is, the backend gets the announced payload */
                        if (nr < 0)
                            mc_fail("C09/reply-well-formed", "the reply to a write request of %llu octets is not a sequence of valid frames", (unsigned long long)L);
                        else if (D.ncalls == 1 && nr == 1 && rp[0].type == RT_WRITE_RESP && rp[0].meta == 0) {
                            served = true;
                            if (D.call[0].bsize != plen / (w16 ? 2u : 1u) || !D.call[0].write)
                                mc_fail("C09/payload-as-announced", "backend was asked for a block of %zu units; %llu payload octets were sent", D.call[0].bsize, (unsigned long long)plen);
                        }
                    }
                    drv_release(&D);
                    mc_end(true, mc.cur_failed ? "failed" : served ? "large-frame-served" : D.ncalls == 0 ? "request-refused" : "request-answered-otherwise");
                }
    /* (c) reads of about 2^16 octets, and around the transmit limit, from a block that can hold them */
    {
        unsigned char raw[64], wire[160];
        const size_t bsz = F + 16 + 65536 + 40, cap = bsz - F; /* cap: first guess, places the sizes; the oracle uses the learned capacity */
        for (unsigned hi = 0; hi < 2; ++hi)
            for (int w16 = 0; w16 < 2; ++w16) {
                const struct hv *hv = &HV[hi];
                const bool tcp = hv->tcp;
                const size_t ws = w16 ? 2 : 1;
                uint32_t list[24];
                int nl = 0;
                for (int d = -2; d <= 2; ++d)
                    list[nl++] = (uint32_t)((65536 + d * (int)ws) / (int)ws);
                for (int d = -3; d <= 3; ++d) {
                    list[nl++] = (uint32_t)((cap - 16 + (size_t)(d * (int)ws)) / ws);
                    list[nl++] = (uint32_t)((cap - hv->hdr + (size_t)(d * (int)ws)) / ws);
                }
                for (int k = 0; k < nl; ++k) {
                    const uint32_t bs = list[k];
                    bool dup = false;
                    for (int j = 0; j < k; ++j)
                        dup |= list[j] == bs;
                    if (dup)
                        continue;
                    if (!mc_case("ix blocksize=%zu (descriptor + %zu) %s read%d block-size=%u", bsz, cap, hv->name, w16 ? 16 : 8, bs))
                        continue;
                    static struct readlimit RLX[2][2];
                    size_t lcap;
                    const bool known = learned_capacity(bsz, !tcp, &lcap);
                    learn_read_limit(&RLX[hi][w16], tcp, hv->opts, hv->hdr, w16, bsz, known ? lcap : cap);
                    mc_log("learned: capacity %s%zu; largest read served %s%u units; buffer size reported %s%u", known ? "" : "none, first guess ", known ? lcap : cap,
                           RLX[hi][w16].known ? "" : "unknown ", RLX[hi][w16].maxserved, RLX[hi][w16].have_t ? "" : "unknown ", RLX[hi][w16].tval);
                    const size_t n = build_request(raw, tcp, false, w16, 0x1000, bs, 0, 0x0c0d);
                    const size_t wn = frame_wire(tcp, raw, n, wire);
                    c09_init(&D, tcp, w16, bsz, tcp ? DRV_SRC_CHUNK : DRV_SRC_OCTET);
                    memset(&LZ, 0, sizeof LZ);
                    connect_x(&D, tcp, tcp ? DRV_SRC_CHUNK : DRV_SRC_OCTET, false, false, -1, 0, -1, 0);
                    struct result r;
                    serve(&D, wire, wn, 1, &r);
                    mc_log("recv rc=%d error.id=%d process rc=%d calls=%d reply=%zu", r.rrc[0], r.errid[0], r.prc[0], D.ncalls, X.outlen);
                    const char *outcome = "?";
                    if (safety_x(&D, "large read")) {
                        struct rframe rp[8];
                        const int nr = replies_buf(xbuf, X.outlen, tcp, rp, xscratch);
                        outcome = judge_read(nr, rp, D.ncalls, bs, ws, known, lcap, bsz, true, &RLX[hi][w16]);
                    }
                    drv_release(&D);
                    mc_end(true, mc.cur_failed ? "failed" : !strcmp(outcome, "read-executed") ? "large-read-executed" : !strcmp(outcome, "tx-overflow") ? "large-read-tx-overflow" : outcome);
                }
            }
    }
}

/* ---- family x: how the source cuts the stream into pieces ------------------------------------------ */
/* A chunk source that offers its own buffer (getbuffer extension) is called
 * directly and may answer a read with fewer octets than asked for; what it
 * delivers reaches the receiving sink in pieces of that size.  Where the pieces
 * end is the source's business: every set of up to two (thorough: three) piece
 * boundaries inside the first frame of the stream, and every uniform limit on
 * the size of a read - crossed with allocation failure in either reception,
 * both allocator conventions, and a block that is large / has room for exactly
 * the frame / is one octet short.  (On the serial transport and with sources
 * that do not offer a buffer the library reads octet by octet: the pieces of
 * such a source are never seen by the receiver.) */
static size_t g_cut[3];
static int g_ncut;
static size_t g_piece; /* no read delivers more than this many octets (0: no limit) */

static ssize_t
cut_chunk(void *driver, void *out, size_t n)
{
    struct drv *d = driver;
    if (++d->src_calls > d->src_budget) {
        d->overrun = true;
        return -EIO;
    }
    if (d->inpos >= d->inlen)
        return -ENODATA;
    size_t k = d->inlen - d->inpos;
    if (k > n)
        k = n;
    if (g_piece && k > g_piece)
        k = g_piece;
    for (int i = 0; i < g_ncut; ++i)
        if (d->inpos < g_cut[i] && g_cut[i] < d->inpos + k)
            k = g_cut[i] - d->inpos;
    memcpy(out, d->in + d->inpos, k);
    d->inpos += k;
    return (ssize_t)k;
}

#define X_SEQ 0x6600u
#define X_ADDR 0x500u

/* one stream under one cutting; false after a recorded failure */
static bool
x_run(const unsigned char *wire, size_t wn, size_t n0, bool w16, size_t bsz, bool cap_known, size_t cap, bool slab, unsigned mask, int kinds, size_t units0, size_t plen0,
      const char *what)
{
    unsigned char scratch[DRV_WIRE];
    c09_init(&D, true, w16, bsz, DRV_SRC_CHUNK_GETBUFFER);
    {
        Source src;
        Sink snk;
        chunk_source_init(&src, cut_chunk, &D);
        src.ext.getbuffer = drv_src_getbuffer;
        chunk_sink_init(&snk, drv_sink_chunk, &D);
        regp_use_channel(&D.p, RP_EP_TCP, src, snk);
    }
    if (slab)
        use_slab(&D);
    g_rfail = mask;
    struct result r;
    serve(&D, wire, wn, 2, &r);
    mc_log("%s: %d receive rounds (rc=%d,%d error.id=%d,%d); allocation refused in receptions %u%u; %d memory accesses; %zu reply octets", what, r.nframes, r.rrc[0], r.rrc[1],
           r.errid[0], r.errid[1], g_rfailed & 1, (g_rfailed >> 1) & 1, D.ncalls, D.outlen);
    bool ok = safety(&D, what);
    if (ok) {
        struct rframe rp[8];
        const int nr = replies(&D, true, rp, scratch);
        if (nr < 0) {
            mc_fail("C09/reply-well-formed", "%s: the octets sent back are not a sequence of valid frames", what);
            ok = false;
        } else if (!judge_busy(&D, g_rfailed, 2, kinds, X_SEQ, X_ADDR, nr, rp))
            ok = false;
        else if (!(g_rfailed & 1) && cap_known) {
            /* the first request met no allocation failure */
            int j = -1, call = -1;
            for (int i = 0; i < nr && j < 0; ++i)
                if ((rp[i].type == RT_READ_RESP || rp[i].type == RT_WRITE_RESP) && rp[i].seq == X_SEQ)
                    j = i;
            for (int i = 0; i < D.ncalls && i < DRV_MAXCALLS && call < 0; ++i)
                if (D.call[i].addr == X_ADDR)
                    call = i;
            if (n0 > cap) {
                if (call >= 0) {
                    mc_fail("C09/overflowing-frame-not-executed", "%s: frame of %zu octets exceeds capacity %zu but the memory was accessed", what, n0, cap);
                    ok = false;
                } else if (cap >= 16 && (j < 0 || rp[j].type != ((kinds & 1) ? RT_WRITE_RESP : RT_READ_RESP) || rp[j].meta != 4 || rp[j].addr != X_ADDR)) {
                    mc_fail("C09/rx-overflow-response", "%s: frame of %zu octets into capacity %zu: %d replies, the one echoing the request: type=%u code=%u (expected a receive-overflow response)",
                            what, n0, cap, nr, j >= 0 ? rp[j].type : 99, j >= 0 ? rp[j].meta : 99);
                    ok = false;
                }
            } else if (call >= 0 && D.call[call].write && (D.call[call].bsize != units0 || D.call[call].plen != plen0)) {
                mc_fail("C09/payload-as-announced", "%s: backend got %zu payload octets (block of %zu units) for an announced block of %zu units", what, D.call[call].plen,
                        D.call[call].bsize, units0);
                ok = false;
            }
        }
    }
    drv_release(&D);
    return ok;
}

static void
family_x(void)
{
    static const struct { bool write, w16; uint32_t units; size_t plen; int tier; const char *name; } FR[] = {
        { false, true, 2, 0, 0, "read16(2)" }, { true, true, 4, 8, 0, "write16(4)" }, { true, false, 3, 3, 0, "write8(3)" }, { true, false, 21, 21, 0, "write8(21)" },
        { true, true, 20, 40, 1, "write16(20)" },
    };
    unsigned char raw[2][128], wire[300];
    char what[200];
    for (unsigned fi = 0; fi < sizeof FR / sizeof *FR; ++fi)
        for (int room = 0; room < 3; ++room)
            for (unsigned mask = 0; mask < 4; ++mask)
                for (int slab = 0; slab < 2; ++slab) {
                    if (FR[fi].tier > (g_th ? 1 : 0))
                        continue;
                    static const char *ROOM[3] = { "block of 128 octets", "block with room for exactly the frame", "block one octet short of the frame" };
                    if (!mc_case("x tcp+getbuffer %s then read16(2), %s, allocation fails in receptions %u%u, %s allocator x every cutting of the first frame into pieces (up to %d boundaries; reads of at most 1..24 octets)",
                                 FR[fi].name, ROOM[room], mask & 1, (mask >> 1) & 1, slab ? "slab" : "generic", g_th ? 3 : 2))
                        continue;
                    const size_t n0 = build_request(raw[0], true, FR[fi].write, FR[fi].w16, X_ADDR, FR[fi].units, FR[fi].plen, X_SEQ);
                    const size_t n1 = build_request(raw[1], true, false, FR[fi].w16, X_ADDR + 1, 2, 0, X_SEQ + 1);
                    const size_t w0 = frame_wire(true, raw[0], n0, wire);
                    const size_t wn = w0 + frame_wire(true, raw[1], n1, wire + w0);
                    const int kinds = FR[fi].write ? 1 : 0;
                    size_t bsz = 128, cap = 0;
                    bool known = false, skip = false;
                    if (room) {
                        const size_t target = room == 1 ? n0 : n0 - 1;
                        bsz = target >= 16 ? drv_block_for_capacity_wide(target, false) : 0;
                        if (bsz == 0) {
                            skip = true; /* no such block (or the overflow reply of so small a block is not demanded) */
                        } else {
                            known = learned_capacity(bsz, false, &cap);
                        }
                    } else
                        known = learned_capacity(bsz, false, &cap);
                    if (skip) {
                        mc_end(false, "no-such-block");
                        continue;
                    }
                    mc_log("block of %zu octets, learned capacity %s%zu; first frame %zu octets", bsz, known ? "" : "none ", cap, n0);
                    bool ok = true;
                    long runs = 0;
                    /* uniform limits */
                    g_ncut = 0;
                    for (size_t c = 1; c <= 24 && ok; ++c) {
                        g_piece = c;
                        snprintf(what, sizeof what, "no read delivers more than %zu octets", c);
                        ok = x_run(wire, wn, n0, FR[fi].w16, bsz, known, cap, slab, mask, kinds, FR[fi].units, FR[fi].plen, what);
                        runs++;
                    }
                    g_piece = 0;
                    /* piece boundaries at stream offsets c1 < c2 < c3 inside the first frame (offset 0 = in front of the length prefix) */
                    const int maxcut = g_th ? 3 : 2;
                    /* (c = 0: no boundary; c1 < c2 < c3) */
                    for (size_t c1 = 0; c1 < w0 && ok; ++c1)
                        for (size_t i2 = 0; ok; ++i2) {
                            const size_t c2 = i2 ? c1 + i2 : 0;
                            if (c2 >= w0 || (i2 && (c1 == 0 || maxcut < 2)))
                                break;
                            for (size_t i3 = 0; ok; ++i3) {
                                const size_t c3 = i3 ? c2 + i3 : 0;
                                if (c3 >= w0 || (i3 && (c2 == 0 || maxcut < 3)))
                                    break;
                                g_ncut = 0;
                                if (c1) g_cut[g_ncut++] = c1;
                                if (c2) g_cut[g_ncut++] = c2;
                                if (c3) g_cut[g_ncut++] = c3;
                                snprintf(what, sizeof what, "piece boundaries at stream offsets {%zu,%zu,%zu} (0: none)", c1, c2, c3);
                                ok = x_run(wire, wn, n0, FR[fi].w16, bsz, known, cap, slab, mask, kinds, FR[fi].units, FR[fi].plen, what);
                                runs++;
                            }
                        }
                    g_ncut = 0;
                    mc_log("%ld cuttings", runs);
                    mc_end(true, mc.cur_failed ? "failed" : mask ? "pieces-allocation-fails" : "pieces-allocation-ok");
                }
}

int
main(int argc, char **argv)
{
    mc_init(argc, argv);
    g_th = mc_thorough();
    MC_ANCHOR(rr_crc(0, (const unsigned char *)"123456789", 9) == 0xbb3d, "CRC check value");
    const size_t F = sizeof(RPFrame);
    const size_t bs[] = { F + 1, F + 2, F + 11, F + 12, F + 13, F + 14, F + 15, F + 16, F + 17, F + 32, 128, 129 };
    for (unsigned i = 0; i < sizeof bs / sizeof *bs; ++i)
        blocksizes[nblocksizes++] = bs[i];
    if (g_th) {
        blocksizes[nblocksizes++] = F + 3;
        blocksizes[nblocksizes++] = 200;
        blocksizes[nblocksizes++] = 257;
    }
    make_corpus();
    family_i();
    family_ii();
    family_iii();
    family_iv();
    family_v();
    family_vi();
    family_vii();
    family_viii();
    family_ix();
    family_x();
    mc_finish(true, g_th ? "block sizes {F+1,F+2,F+3,F+11..F+17,F+32,128,129,200,257}; i: every frame length up to (block size - sizeof(RPFrame))+6, judged against the capacity learned per block size from the receiver's own answers; ii: every read size up to (block size - sizeof(RPFrame))+8, judged against the learned capacity, the learned largest read served and the learned reported buffer size; iii: 3 transport variants x 8 kind triples x 8 allocation scripts (per reception) x generic/slab allocator; iv: 8 corpus frames x every position x 13 octets x allocation, every pair of positions x 13x13 octets, truncations, short frames, concatenations, 12 TCP prefixes x 3 tails; v: all strings of length 0..3 over 13 octets; vi: source error at every octet x 2 codes x allocation x every single-octet mutation, sink error at every reply octet; vii: 2 transports x 4 undecodable streams after a valid request on one reused RPMaybeFrame x first frame freed/held; i and iii also with a chunk source offering a scratch buffer; ii: 6 request header variants, sizes as stated and 8 sizes >= 2^31-1; iii also with a slab allocator; viii: 34 reply kinds (4 replies of regp_recv, 8 of regp_process, 11 memory verdicts x read/write) x 3 transport variants x octet/chunk sink x {EAGAIN, EINTR, short write 1, short write n-1, zero-length write of several octets, EIO} at every sink call x a second answer at every later call x strict/lenient caller x generic/slab allocator; ix: generated streams, frame lengths 2^15-1..2^15+1, 2^16-1..2^16+1, 2^24-1..2^24+1 (3 transport variants), 2^31-1..2^31+1, 2^31+12345, 2^32-1..2^32+1, 2^32+77, 2^32+2^31, 2^32+2^31+1, 2^33+1 (tcp with a 64 KiB scratch buffer) into blocks of 128 and 4096, frames of 2^16-1..2^16+1 octets into blocks whose learned capacity is exactly that / one more, reads of 2^16 -+ 2 units and around the transmit limit from a block of 2^16+56 octets of capacity; x: tcp with a chunk source offering its buffer, first frame {read16(2), write16(4), write8(3), write8(21), write16(20)} followed by a read request x block {128, capacity exactly the frame, one octet short} x allocation failure in either reception x generic/slab allocator x every set of up to 3 piece boundaries inside the first frame and every limit of 1..24 octets per read"
                         : "block sizes {F+1,F+2,F+11..F+17,F+32,128,129}; i: every frame length up to (block size - sizeof(RPFrame))+6, judged against the capacity learned per block size from the receiver's own answers; ii: every read size up to (block size - sizeof(RPFrame))+8, judged against the learned capacity, the learned largest read served and the learned reported buffer size; iii: 3 transport variants x 8 kind triples x 8 allocation scripts (per reception) x generic/slab allocator; iv: 6 corpus frames x every position x 13 octets x allocation, truncations, short frames, concatenations, 12 TCP prefixes x 3 tails; v: all strings of length 0..3 over 13 octets; vi: source error at every octet x 2 codes x allocation x 4 mutations, sink error at every reply octet; vii: 2 transports x 4 undecodable streams after a valid request on one reused RPMaybeFrame x first frame freed/held; i and iii also with a chunk source offering a scratch buffer; ii: 6 request header variants, sizes as stated and 8 sizes >= 2^31-1; iii also with a slab allocator; viii: 34 reply kinds (4 replies of regp_recv, 8 of regp_process, 11 memory verdicts x read/write) x 3 transport variants x octet/chunk sink x {EAGAIN, EINTR, short write 1, short write n-1, zero-length write of several octets, EIO} at every sink call x a second answer at the following call x strict/lenient caller x generic/slab allocator; ix: generated streams, frame lengths 2^15-1..2^15+1, 2^16-1..2^16+1 (3 transport variants), 2^31-1..2^31+1, 2^31+12345, 2^32-1..2^32+1, 2^32+77 (tcp with a 64 KiB scratch buffer) into blocks of 128 and 4096, frames of 2^16-1..2^16+1 octets into blocks whose learned capacity is exactly that / one more, reads of 2^16 -+ 2 units and around the transmit limit from a block of 2^16+56 octets of capacity; x: tcp with a chunk source offering its buffer, first frame {read16(2), write16(4), write8(3), write8(21)} followed by a read request x block {128, capacity exactly the frame, one octet short} x allocation failure in either reception x generic/slab allocator x every set of up to 2 piece boundaries inside the first frame and every limit of 1..24 octets per read");
    return 0;
}
