/*
 * C04 -- table initialisation accepts exactly the well-formed tables.
 *
 * Space: ALL area lists of length 0..LA over a (base, size) grid x ALL register
 * lists of length 0..LR over an (address, size) grid x default inside/outside
 * the constraint (per register) x area options (plain, skip-defaults, no write
 * callback, callback-backed) x fresh / previously-initialised table object.
 * Equal bases, one-word overlaps, reversed order, registers straddling an area
 * end or lying in a hole all occur because the lists are enumerated, not
 * hand-picked.  Oracle: the rule list of the statement; where several rules
 * are violated every Pareto-minimal violation over (rank of the rule, index) is
 * an admissible report.  Defaults come in two flavours (non-zero, all-zero
 * bits), memory-backed areas also with the user's own accessor functions.
 * Only fields the public header documents as description or as the statement's
 * observables (table flags, area entry records) are named.
 */
#include "mc.h"
#include "regtab.h"

struct grid {
    int la, lr;          /* maximum list lengths */
    uint32_t abase_max;  /* area bases 0..abase_max */
    int nasz;
    uint32_t asz[4];
    uint32_t raddr_max;  /* register addresses 0..raddr_max */
};

static struct tab tb;

static const char *
initname(RegisterInitCode c)
{
    static const char *n[] = { "SUCCESS", "TABLE_INVALID", "NO_AREAS", "TOO_MANY_AREAS", "AREA_INVALID_ORDER", "AREA_ADDRESS_OVERLAP",
                               "TOO_MANY_ENTRIES", "ENTRY_INVALID_ORDER", "ENTRY_ADDRESS_OVERLAP", "ENTRY_IN_MEMORY_HOLE", "ENTRY_INVALID_DEFAULT" };
    return (unsigned)c < 11 ? n[c] : "?";
}

static int
noop_cb(RegisterTable *t, RegisterHandle h, void *arg)
{
    (void)t; (void)h; (void)arg;
    return 0;
}

/* the rules of the statement in the order it lists them */
enum rule { R_NO_AREAS, R_AREA_ORDER, R_AREA_OVERLAP, R_ENTRY_ORDER, R_ENTRY_OVERLAP, R_HOLE, R_DEFAULT, R_NRULES };
static const RegisterInitCode RULE_CODE[R_NRULES] = {
    REG_INIT_NO_AREAS, REG_INIT_AREA_INVALID_ORDER, REG_INIT_AREA_ADDRESS_OVERLAP, REG_INIT_ENTRY_INVALID_ORDER,
    REG_INIT_ENTRY_ADDRESS_OVERLAP, REG_INIT_ENTRY_IN_MEMORY_HOLE, REG_INIT_ENTRY_INVALID_DEFAULT,
};

struct expect {
    int n;
    RegisterInitCode code[8 * (R_NRULES + 3) + 1]; /* the two overlap rules admit two indices each; four readings of "ascending" */
    long index[8 * (R_NRULES + 3) + 1]; /* -1: index not demanded */
};

static void
expect_add(struct expect *e, RegisterInitCode c, long idx)
{
    for (int i = 0; i < e->n; ++i)
        if (e->code[i] == c && e->index[i] == idx)
            return;
    e->code[e->n] = c;
    e->index[e->n] = idx;
    e->n++;
}

/* does an area load the defaults of its registers? */
static bool
area_loads_default(const struct aspec *a)
{
    return !a->nowrite && !(a->flags & REG_AF_SKIP_DEFAULTS);
}

static bool
loads_default(const struct tspec *s, int ai)
{
    return area_loads_default(&s->a[ai]);
}

/* wholly inside one area (lists of any length) */
static long
area_containing_whole_l(const struct aspec *a, long na, const struct rspec *r)
{
    for (long i = 0; i < na; ++i)
        if (r->addr >= a[i].base && (uint64_t)r->addr + ref_words(r->type) <= (uint64_t)a[i].base + a[i].size)
            return i;
    return -1;
}

static int
area_containing_whole(const struct tspec *s, const struct rspec *r)
{
    return (int)area_containing_whole_l(s->a, s->na, r);
}

/* a subnormal float pattern */
static bool
bits_subnormal(RegisterType t, uint64_t bits)
{
    if (t == REG_TYPE_FLOAT32)
        return ((bits >> 23) & 0xff) == 0 && (bits & 0x7fffff) != 0;
    if (t == REG_TYPE_FLOAT64)
        return ((bits >> 52) & 0x7ff) == 0 && (bits & 0xfffffffffffffull) != 0;
    return false;
}

/* reading of "acceptable to its own register" for subnormal float defaults in
 * the current reference pass: false = not acceptable (what the typed set of
 * the library documents: zero or normal only), true = acceptable (a library
 * that stores subnormals).  reference_lists unites both; what is accepted must
 * read back (C04/defaults-loaded). */
static bool g_subnormal_ok;

static bool
default_acceptable(const struct rspec *r)
{
    const uint64_t bits = ref_bits(r->type, r->def);
    bool okd = ref_storable(r->type, bits) || (g_subnormal_ok && bits_subnormal(r->type, bits));
    if (okd && r->ckind != K_FAIL)
        okd = ref_constraint(r, r->def);
    return okd;
}

/* The rule list of the statement, over lists of any length.
 *
 * "Reports the first violated rule with the index of the offending area or
 * register" leaves open what "first" runs over: the rules in the order of the
 * statement, the list elements in the order of their index, or a validator in
 * several walks each of which looks at some of the rules.  What every reading
 * has in common: the reported (rule, index) is a violation that exists, and no
 * other existing violation comes before it in BOTH orders.  So the admissible
 * answers are the Pareto-minimal violations over (rank of the rule in the
 * statement, index), each with its own index: for every rule the lowest index
 * violating it, kept if no rule of lower rank is violated at the same or a
 * lower index.  (The rule-major answer, the index-major answer and the answer
 * of a single walk over the registers are three of them.)  The two overlap
 * rules are reported with the index of either of the two overlapping
 * neighbours.
 *
 * Equal starts (two areas with the same base, two registers with the same
 * address): "ascending" can be read as non-descending (the pair then violates
 * "non-overlapping" only) or as strictly ascending (current <= previous
 * violates the order rule).  Both readings are admissible, independently for
 * the area list and for the register list: the Pareto-minimal sets of all four
 * combinations are united.  strict_a / strict_r select the reading of one
 * pass. */
static bool
reference_pass(const struct aspec *a, long na, const struct rspec *r, long nr, bool strict_a, bool strict_r, struct expect *e)
{
    bool violated = false;
    long first[R_NRULES];
    for (int k = 0; k < R_NRULES; ++k)
        first[k] = -1;
    if (na == 0)
        first[R_NO_AREAS] = 0; /* comes before everything else */
    /* areas ascending and non-overlapping */
    for (long i = 1; i < na && (first[R_AREA_ORDER] < 0 || first[R_AREA_OVERLAP] < 0); ++i) {
        const bool overlap = (uint64_t)a[i].base < (uint64_t)a[i - 1].base + a[i - 1].size;
        if (a[i].base < a[i - 1].base || (strict_a && a[i].base == a[i - 1].base && overlap)) {
            if (first[R_AREA_ORDER] < 0) first[R_AREA_ORDER] = i;
        } else if (overlap) {
            if (first[R_AREA_OVERLAP] < 0) first[R_AREA_OVERLAP] = i;
        }
    }
    /* registers ascending and non-overlapping */
    for (long i = 1; i < nr && (first[R_ENTRY_ORDER] < 0 || first[R_ENTRY_OVERLAP] < 0); ++i) {
        const bool overlap = (uint64_t)r[i].addr < (uint64_t)r[i - 1].addr + ref_words(r[i - 1].type);
        if (r[i].addr < r[i - 1].addr || (strict_r && r[i].addr == r[i - 1].addr && overlap)) {
            if (first[R_ENTRY_ORDER] < 0) first[R_ENTRY_ORDER] = i;
        } else if (overlap) {
            if (first[R_ENTRY_OVERLAP] < 0) first[R_ENTRY_OVERLAP] = i;
        }
    }
    /* every register wholly inside one area; every default that gets loaded
     * acceptable to its own register */
    for (long i = 0; i < nr && na > 0 && (first[R_HOLE] < 0 || first[R_DEFAULT] < 0); ++i) {
        const long ai = area_containing_whole_l(a, na, &r[i]);
        if (ai < 0) {
            if (first[R_HOLE] < 0) first[R_HOLE] = i;
        } else if (area_loads_default(&a[ai])) {
            if (!default_acceptable(&r[i]) && first[R_DEFAULT] < 0) first[R_DEFAULT] = i;
        }
    }
    /* An overlap is a relation between two neighbours, element i-1 and element
     * i: "the index of the offending area or register" does not say which of
     * the two offends, so both indices are admissible reports of that
     * violation.  The Pareto order keeps the later element i as the place where
     * the violation is found (a walk has seen both elements only at i). */
    long best = -1; /* lowest index violated by a rule of lower rank */
    for (int k = 0; k < R_NRULES; ++k)
        if (first[k] >= 0 && (best < 0 || first[k] < best)) {
            expect_add(e, RULE_CODE[k], k == R_NO_AREAS ? -1 : first[k]);
            if (k == R_AREA_OVERLAP || k == R_ENTRY_OVERLAP)
                expect_add(e, RULE_CODE[k], first[k] - 1);
            best = first[k];
            violated = true;
        }
    return violated;
}

static void
reference_lists(const struct aspec *a, long na, const struct rspec *r, long nr, struct expect *e)
{
    e->n = 0;
    bool any_subnormal = false;
    for (long i = 0; i < nr && !any_subnormal; ++i)
        any_subnormal = bits_subnormal(r[i].type, ref_bits(r[i].type, r[i].def));
    /* the non-descending reading with subnormal defaults not acceptable comes
     * first: e->code[0] / e->index[0] name it in reports */
    for (int sub = 0; sub < (any_subnormal ? 2 : 1); ++sub) {
        bool violated = false;
        g_subnormal_ok = sub != 0;
        for (int reading = 0; reading < 4; ++reading)
            violated |= reference_pass(a, na, r, nr, (reading & 1) != 0, (reading & 2) != 0, e);
        if (!violated)
            expect_add(e, REG_INIT_SUCCESS, -1);
    }
    g_subnormal_ok = false;
}

/* "A@i or B@j or ..." */
static const char *
expect_str(const struct expect *e)
{
    static char buf[900];
    size_t l = 0;
    buf[0] = 0;
    for (int i = 0; i < e->n && l + 48 < sizeof buf; ++i)
        l += (size_t)snprintf(buf + l, sizeof buf - l, "%s%s@%ld", i ? " or " : "", initname(e->code[i]), e->index[i]);
    return buf;
}

static void
reference(const struct tspec *s, struct expect *e)
{
    reference_lists(s->a, s->na, s->r, s->nr, e);
}

static long n_ok, n_bad;

/* The library's own size limits, read from its public header: a description
 * with at least that many registers (areas) cannot be counted by it and is
 * refused as TOO_MANY_ENTRIES (TOO_MANY_AREAS) -- its documented size limit,
 * not one of the statement's rules.  Limit = the header's macro, at most the
 * largest value of the handle type. */
static uint64_t
lib_register_limit(void)
{
    uint64_t lim = (uint64_t)(RegisterHandle)~(RegisterHandle)0;
#ifdef REGISTER_HANDLE_MAX
    if ((uint64_t)REGISTER_HANDLE_MAX < lim)
        lim = (uint64_t)REGISTER_HANDLE_MAX;
#endif
    return lim;
}

static uint64_t
lib_area_limit(void)
{
    uint64_t lim = (uint64_t)(AreaHandle)~(AreaHandle)0;
#ifdef AREA_HANDLE_MAX
    if ((uint64_t)AREA_HANDLE_MAX < lim)
        lim = (uint64_t)AREA_HANDLE_MAX;
#endif
    return lim;
}

static bool g_over_limit; /* the last g_init_and_check ended as an admissible size-limit refusal */

static void
note_over_limit(void)
{
    static bool seen;
    if (seen)
        return;
    seen = true;
    mc_cap("descriptions at or above the library's size limit (%llu registers / %llu areas) were refused as too large: rule list not judged for them",
           (unsigned long long)lib_register_limit(), (unsigned long long)lib_area_limit());
}

/* after a refused initialisation the typed, block, iteration and sanitise
 * operations report the table as uninitialised */
/* nr: registers in the description.  The typed and bit operations are probed
 * with handle 0; in a description without registers there is no such register,
 * so "no such entry" applies to them as much as "uninitialised" does (a library
 * may look at the handle first): both answers are accepted there. */
static bool
check_uninitialised(RegisterTable *t, uint32_t base0, long nr, const char *odesc, int preinit, RegisterInitCode code)
{
    RegisterValue v;
    memset(&v, 0, sizeof v);
    v.type = REG_TYPE_UINT16;
    RegisterAtom *buf = mc_exact(2 * sizeof(RegisterAtom));
    buf[0] = buf[1] = 0;
    enum { NOPS = 15 };
    RegisterAccessCode c[NOPS];
    c[0] = register_set(t, 0, v).code;
    c[1] = register_set_unsafe(t, 0, v).code;
    c[2] = register_get(t, 0, &v).code;
    c[3] = register_block_read(t, base0, 1, buf).code;
    c[4] = register_block_write(t, base0, 1, buf).code;
    c[5] = register_foreach_in(t, 0, 16, noop_cb, NULL).code;
    c[6] = register_sanitise(t).code;
    v.type = REG_TYPE_UINT16;
    c[7] = register_bit_set(t, 0, v).code;
    c[8] = register_bit_clear(t, 0, v).code;
    /* the statement makes no exception for any request size: empty and
     * two-word block requests, an empty range, a range above the table */
    c[9] = register_block_read(t, base0, 0, buf).code;
    c[10] = register_block_write(t, base0, 0, buf).code;
    c[11] = register_block_read(t, base0, 2, buf).code;
    c[12] = register_block_write(t, base0, 2, buf).code;
    c[13] = register_foreach_in(t, base0, 0, noop_cb, NULL).code;
    c[14] = register_foreach_in(t, 0x7fffff00u, 4, noop_cb, NULL).code;
    mc_trans(NOPS);
    free(buf);
    static const char *opn[NOPS] = { "set", "set_unsafe", "get", "block_read", "block_write", "foreach_in", "sanitise", "bit_set", "bit_clear",
                                     "block_read (of 0 words)", "block_write (of 0 words)", "block_read (of 2 words)", "block_write (of 2 words)",
                                     "foreach_in (over 0 addresses)", "foreach_in (over addresses above the table)" };
    static const bool typed[NOPS] = { true, true, true, false, false, false, false, true, true };
    for (int i = 0; i < NOPS; ++i)
        if (c[i] != REG_ACCESS_UNINITIALISED && !(nr == 0 && typed[i] && c[i] == REG_ACCESS_NOENTRY)) {
            mc_fail("C04/failed-init-leaves-uninitialised", "%s preinit=%d: after %s, register_%s answered code %d instead of UNINITIALISED",
                    odesc, preinit, initname(code), opn[i], c[i]);
            return false;
        }
    return true;
}

/* ---- iteration as an observer of the area entry records ------------------------
 * What an area "records" about its registers is what range iteration starts
 * from.  The record is a function of the description alone, so two table
 * objects with the same description -- one fresh (zeroed descriptors), one with
 * a past (dirty descriptors, earlier initialisations) -- must iterate alike.
 * Only the two objects are compared with each other; what iteration has to
 * visit is C03's business. */
#define IT_MAX 8
struct itsig {
    int code, n;
    uint32_t h[IT_MAX];
};

static int
it_collect(RegisterTable *t, RegisterHandle h, void *arg)
{
    struct itsig *s = arg;
    (void)t;
    if (s->n < IT_MAX)
        s->h[s->n] = (uint32_t)h;
    s->n++;
    return 0;
}

static void
iter_sig(RegisterTable *t, uint32_t addr, uint32_t len, struct itsig *s)
{
    memset(s, 0, sizeof *s);
    s->code = (int)register_foreach_in(t, addr, len, it_collect, s).code;
    mc_trans(1);
}

static bool
itsig_equal(const struct itsig *a, const struct itsig *b)
{
    if (a->code != b->code || a->n != b->n)
        return false;
    for (int i = 0; i < a->n && i < IT_MAX; ++i)
        if (a->h[i] != b->h[i])
            return false;
    return true;
}

static const char *
itsig_str(const struct itsig *a, char *buf, size_t n)
{
    size_t l = (size_t)snprintf(buf, n, "code %d visits [", a->code);
    for (int i = 0; i < a->n && i < IT_MAX && l + 14 < n; ++i)
        l += (size_t)snprintf(buf + l, n - l, "%s%u", i ? " " : "", a->h[i]);
    snprintf(buf + l, n - l, "]");
    return buf;
}

/* every window [addr, addr+len) inside lo..hi: both tables iterate alike */
static bool
iter_same(RegisterTable *past, RegisterTable *fresh, uint32_t lo, uint32_t hi, const char *odesc, const char *what)
{
    for (uint32_t a = lo; a <= hi; ++a)
        for (uint32_t len = 1; len <= hi - a + 1; ++len) {
            struct itsig x, y;
            iter_sig(past, a, len, &x);
            iter_sig(fresh, a, len, &y);
            if (!itsig_equal(&x, &y)) {
                char bx[96], by[96];
                mc_fail("C04/area-record-independent-of-history", "%s: iterating over [%u,+%u) on the %s table: %s; on a fresh table with the same description: %s",
                        odesc, a, len, what, itsig_str(&x, bx, sizeof bx), itsig_str(&y, by, sizeof by));
                return false;
            }
        }
    return true;
}

static int g_hook; /* memory-backed areas of the next one_init: 1 read, 2 write, 3 both accessors are the user's own wrappers */

static RegisterAccess
hook_mem_read(const RegisterArea *a, RegisterAtom *dest, RegisterOffset off, RegisterOffset n)
{
    return reg_mem_read(a, dest, off, n);
}

static RegisterAccess
hook_mem_write(RegisterArea *a, const RegisterAtom *src, RegisterOffset off, RegisterOffset n)
{
    return reg_mem_write(a, src, off, n);
}

static bool
one_init(const struct tspec *s, bool preinit, const char *odesc, bool dirty, long fault_k)
{
    struct expect e;
    reference(s, &e);
    tab_build(&tb, s);
    /* memory-backed areas whose accessors are the user's own functions (thin
     * wrappers around reg_mem_read / reg_mem_write): still memory-backed */
    for (int i = 0; i < s->na && g_hook; ++i)
        if (!s->a[i].cb) {
            if (g_hook & 1)
                tb.areas[i].read = hook_mem_read;
            if ((g_hook & 2) && tb.areas[i].write)
                tb.areas[i].write = hook_mem_write;
        }
    if (preinit) {
        /* the table object went through a successful initialisation of an
         * earlier description (one memory-backed area of one word, no
         * registers), done through the public API */
        static RegisterAtom pre_mem[1];
        static RegisterArea pre_areas[2] = { MAKE_CUSTOM_AREA(reg_mem_read, reg_mem_write, 0, 1, REG_AF_RW), REGISTER_AREA_END };
        static RegisterEntry pre_entries[1] = { REGISTER_ENTRY_END };
        pre_areas[0].mem = pre_mem;
        tb.t.area = pre_areas;
        tb.t.entry = pre_entries;
        const RegisterInit pi = register_init(&tb.t);
        mc_trans(1);
        tb.t.area = tb.areas;
        tb.t.entry = tb.entries;
        if (pi.code != REG_INIT_SUCCESS) {
            mc_fail("C04/accepts-well-formed", "%s: a table of one memory-backed area of one word at address 0 without registers was refused with %s",
                    odesc, initname(pi.code));
            tab_free(&tb);
            return false;
        }
    }
    if (dirty)
        /* descriptors built at run time in memory that was not zeroed, or a
         * table initialised before with another register list */
        for (int i = 0; i < s->na; ++i) {
            tb.areas[i].entry.first = 0xa5a5a5a5u;
            tb.areas[i].entry.last = 0x5a5a5a5au;
            tb.areas[i].entry.count = 0x01020304u;
        }
    /* environment deviation: the fault_k-th write callback of a callback-backed
     * area answers IO_ERROR while the defaults are loaded */
    tb.cb_writes = 0;
    tb.cb_fail_write_at = fault_k;
    RegisterInit ri = register_init(&tb.t);
    const bool fault_hit = fault_k >= 0 && tb.cb_writes > fault_k;
    tb.cb_fail_write_at = -1;
    mc_trans(1);
    long idx = -1;
    switch (ri.code) {
    case REG_INIT_AREA_INVALID_ORDER: case REG_INIT_AREA_ADDRESS_OVERLAP: idx = ri.pos.area; break;
    case REG_INIT_ENTRY_INVALID_ORDER: case REG_INIT_ENTRY_ADDRESS_OVERLAP:
    case REG_INIT_ENTRY_IN_MEMORY_HOLE: case REG_INIT_ENTRY_INVALID_DEFAULT: idx = ri.pos.entry; break;
    default: break;
    }
    mc_log("%s preinit=%d -> %s@%ld; reference: %s", odesc, preinit, initname(ri.code), idx, expect_str(&e));
    bool ok = true;
    /* with subnormal float defaults both verdicts may be admissible (see
     * g_subnormal_ok): may_succeed and may_refuse are then both true */
    bool may_succeed = false, may_refuse = false;
    bool match = false;
    for (int i = 0; i < e.n; ++i) {
        if (e.code[i] == REG_INIT_SUCCESS)
            may_succeed = true;
        else
            may_refuse = true;
        if (ri.code == e.code[i] && (e.index[i] < 0 || e.index[i] == idx))
            match = true;
    }
    bool want_success = may_succeed && (!may_refuse || ri.code == REG_INIT_SUCCESS);
    if (fault_hit) {
        /* a default could not be stored: any refusal is admissible (whatever
         * else is wrong with the table); for a well-formed table success is
         * only admissible if the post-conditions hold all the same */
        if (ri.code != REG_INIT_SUCCESS) {
            match = true;
            want_success = false;
        } else if (want_success)
            match = true;
    }
    if (!match) {
        if (want_success)
            mc_fail("C04/accepts-well-formed", "%s preinit=%d: well-formed table refused with %s@%ld", odesc, preinit, initname(ri.code), idx);
        else if (ri.code == REG_INIT_SUCCESS)
            mc_fail("C04/refuses-malformed", "%s preinit=%d: malformed table accepted; reference says %s@%ld", odesc, preinit, initname(e.code[0]), e.index[0]);
        else
            mc_fail("C04/first-violated-rule", "%s preinit=%d: reported %s@%ld; the minimal violations are %s", odesc, preinit, initname(ri.code), idx,
                    expect_str(&e));
        ok = false;
    } else if (!want_success) {
        n_bad++;
        /* every operation reports the table as uninitialised */
        if (!check_uninitialised(&tb.t, s->na ? s->a[0].base : 0, s->nr, odesc, preinit, ri.code))
            ok = false;
    } else {
        n_ok++;
        /* defaults, zeroed memory, area entry ranges */
        bool isreg[RT_MAXA][16];
        memset(isreg, 0, sizeof isreg);
        for (int i = 0; i < s->nr && ok; ++i) {
            const int ai = area_containing_whole(s, &s->r[i]);
            if (loads_default(s, ai)) {
                for (uint32_t w = 0; w < ref_words(s->r[i].type); ++w)
                    isreg[ai][s->r[i].addr - s->a[ai].base + w] = true;
                RegisterValue g;
                memset(&g, 0, sizeof g);
                RegisterAccess ga = register_get(&tb.t, (RegisterHandle)i, &g);
                mc_trans(1);
                if (ga.code != REG_ACCESS_SUCCESS || g.type != s->r[i].type
                    || ref_bits(g.type, g.value) != ref_bits(s->r[i].type, s->r[i].def)) {
                    mc_fail("C04/defaults-loaded", "%s: register %d reads %016llx (code %d), default is %016llx", odesc, i,
                            (unsigned long long)ref_bits(s->r[i].type, g.value), ga.code, (unsigned long long)ref_bits(s->r[i].type, s->r[i].def));
                    ok = false;
                }
            }
        }
        for (int ai = 0; ai < s->na && ok; ++ai) {
            if (s->a[ai].cb)
                continue;
            for (uint32_t w = 0; w < s->a[ai].size; ++w)
                if (!isreg[ai][w] && tb.store[ai][w] != 0) {
                    mc_fail("C04/other-words-zero", "%s: area %d word %u is %04x after init", odesc, ai, w, tb.store[ai][w]);
                    ok = false;
                    break;
                }
        }
        for (int ai = 0; ai < s->na && ok; ++ai) {
            int cnt = 0, first = -1;
            for (int i = 0; i < s->nr; ++i)
                if (area_containing_whole(s, &s->r[i]) == ai) {
                    if (first < 0) first = i;
                    cnt++;
                }
            const RegisterArea *a = &tb.areas[ai];
            if ((int)a->entry.count != cnt
                || (cnt > 0 && ((int)a->entry.first != first || (int)a->entry.last != first + cnt - 1))) {
                mc_fail("C04/area-entry-range", "%s: area %d records first=%u last=%u count=%u; %d registers from index %d lie in it",
                        odesc, ai, a->entry.first, a->entry.last, a->entry.count, cnt, first);
                ok = false;
            }
        }
        if (ok && dirty) {
            /* the same description in a fresh object iterates alike */
            static struct tab twin;
            tab_build(&twin, s);
            RegisterInit r2 = register_init(&twin.t);
            mc_trans(1);
            if (r2.code == REG_INIT_SUCCESS) {
                uint32_t hi = 0;
                for (int i = 0; i < s->na; ++i)
                    if (s->a[i].base + s->a[i].size > hi)
                        hi = s->a[i].base + s->a[i].size;
                ok = iter_same(&tb.t, &twin.t, 0, hi + 1, odesc, "dirty-descriptor");
            }
            tab_free(&twin);
            g_tab = &tb;
        }
    }
    tab_free(&tb);
    return ok;
}

/* register of size class sc (words 1,2,4); `bad` selects a default the
 * register's own constraint refuses; variant picks the type among same-size types */
static void
mkreg(struct rspec *r, uint32_t addr, uint32_t words, bool bad, int variant)
{
    memset(r, 0, sizeof *r);
    r->addr = addr;
    if (words == 1) {
        r->type = REG_TYPE_UINT16;
        r->ckind = K_RANGE;
        r->lo = vu_int(r->type, 10);
        r->hi = vu_int(r->type, 20);
        r->def = vu_int(r->type, bad ? 21 : 15);
    } else if (words == 2 && (variant & 1)) {
        r->type = REG_TYPE_FLOAT32;
        r->ckind = K_NONE;
        r->def = vu_zero();
        if (bad) {
            const uint32_t nan = 0x7fc00000u;
            memcpy(&r->def.f32, &nan, 4);
        } else
            r->def.f32 = 1.5f;
    } else if (words == 2) {
        r->type = REG_TYPE_SINT32;
        r->ckind = K_MIN;
        r->lo = vu_int(r->type, -5);
        r->def = vu_int(r->type, bad ? -6 : -5);
    } else {
        r->type = (variant & 1) ? REG_TYPE_UINT64 : REG_TYPE_FLOAT64;
        if (r->type == REG_TYPE_UINT64) {
            r->ckind = bad ? K_MAX : K_FAIL; /* always-fail registers still take their default at init */
            r->hi = vu_int(r->type, 0x100000000ll);
            r->def = vu_int(r->type, bad ? 0x100000001ll : 7);
        } else {
            r->ckind = K_CB;
            r->def.f64 = bad ? -1.0 : 2.0;
        }
    }
}

/* the same registers with all-zero defaults: `bad` selects a constraint that
 * refuses zero, otherwise one that admits it (memory that was just cleared
 * holds the default already -- the default is held against the constraint all
 * the same) */
static void
mkreg_zero(struct rspec *r, uint32_t addr, uint32_t words, bool bad, int variant)
{
    memset(r, 0, sizeof *r);
    r->addr = addr;
    r->def = vu_zero();
    if (words == 1) {
        r->type = REG_TYPE_UINT16;
        r->ckind = K_RANGE;
        r->lo = vu_int(r->type, bad ? 10 : 0);
        r->hi = vu_int(r->type, 20);
    } else if (words == 2 && (variant & 1)) {
        r->type = REG_TYPE_FLOAT32;
        r->ckind = K_MIN;
        r->lo.f32 = bad ? 1.0f : -1.0f;
    } else if (words == 2) {
        r->type = REG_TYPE_SINT32;
        r->ckind = bad ? K_MAX : K_MIN;
        r->lo = vu_int(r->type, -5);
        r->hi = vu_int(r->type, -1);
    } else if (variant & 1) {
        r->type = REG_TYPE_UINT64;
        r->ckind = bad ? K_MIN : K_FAIL; /* always-fail registers still take their default at init */
        r->lo = vu_int(r->type, 1);
    } else {
        r->type = REG_TYPE_FLOAT64;
        r->ckind = bad ? K_RANGE : K_CB;
        r->lo.f64 = 1.0;
        r->hi.f64 = 2.0;
    }
}

static void
run_lists(const struct grid *g, const uint32_t *ab, const uint32_t *as, int na, const uint32_t *ra, const uint32_t *rsz, int nr, int64_t *ncase)
{
    char desc[240];
    if (!mc_would_run()) {
        /* not this shard's case: number it without formatting its descriptor
         * (a shard restarted behind a crash has to get past millions of these
         * before the watchdog's patience ends) */
        (*ncase)++;
        mc_skip_case();
        return;
    }
    size_t l = (size_t)snprintf(desc, sizeof desc, "areas[");
    for (int i = 0; i < na; ++i)
        l += (size_t)snprintf(desc + l, sizeof desc - l, "%s%u+%u", i ? " " : "", ab[i], as[i]);
    l += (size_t)snprintf(desc + l, sizeof desc - l, "] regs[");
    for (int i = 0; i < nr; ++i)
        l += (size_t)snprintf(desc + l, sizeof desc - l, "%s%u+%u", i ? " " : "", ra[i], rsz[i]);
    snprintf(desc + l, sizeof desc - l, "]");
    (*ncase)++;
    if (!mc_case("%s x bad-default masks x area options x fresh/re-init", desc))
        return;
    n_ok = n_bad = 0;
    bool ok = true;
    const int nmask = 1 << (nr > 3 ? 3 : nr);
    /* area options: 0 plain; 1+2i skip-defaults on area i; 2+2i no write callback on area i; 1+2na: all callback-backed;
     * 2+2na .. 4+2na: all memory-backed with the read / the write / both accessors replaced by the user's own wrappers
     * (all-good defaults only: what is looked at is the state after success) */
    const bool reduced = (g->lr >= 3 && nr >= 3); /* enumerated 3-register lists: plain areas, at most one bad default */
    const int nopt = reduced ? 1 : 1 + 2 * na + (na > 0 ? 4 : 0);
    /* default flavour: 0 non-zero defaults, 1 all-zero defaults (good: the constraint admits zero, bad: it refuses zero);
     * the zero flavour with plain and with callback-backed areas, lists of up to two registers */
    for (int zero = 0; zero < (nr > 0 && !reduced ? 2 : 1) && ok; ++zero)
    for (int mask = 0; mask < nmask && ok; ++mask)
        for (int opt = 0; opt < nopt && ok; ++opt)
            for (int variant = 0; variant < 2 && ok; ++variant) {
                if (reduced && (mask & (mask - 1)))
                    continue;
                const int hook = (na > 0 && opt >= 2 + 2 * na) ? opt - (1 + 2 * na) : 0;
                if (hook && (mask != 0 || zero))
                    continue;
                if (zero && opt != 0 && opt != 1 + 2 * na)
                    continue;
                struct tspec s;
                memset(&s, 0, sizeof s);
                s.be = variant;
                s.na = na;
                for (int i = 0; i < na; ++i) {
                    s.a[i] = (struct aspec){ ab[i], as[i], REG_AF_RW, false, false };
                    if (opt == 1 + 2 * i)
                        s.a[i].flags |= REG_AF_SKIP_DEFAULTS;
                    if (opt == 2 + 2 * i) {
                        s.a[i].nowrite = true;
                        s.a[i].flags = REG_AF_READABLE;
                        s.a[i].cb = variant;
                    }
                    if (opt == 1 + 2 * na)
                        s.a[i].cb = true;
                }
                s.nr = nr;
                for (int i = 0; i < nr; ++i)
                    (zero ? mkreg_zero : mkreg)(&s.r[i], ra[i], rsz[i], (mask >> (i > 2 ? 2 : i)) & 1, variant + i);
                char od[96];
                snprintf(od, sizeof od, "defaults=%s mask=%d opt=%d%s variant=%d", zero ? "zero" : "non-zero", mask, opt,
                         hook == 1 ? " (own read accessor)" : hook == 2 ? " (own write accessor)" : hook == 3 ? " (own read and write accessors)" : "", variant);
                g_hook = hook;
                ok = one_init(&s, false, od, false, -1);
                if (ok && hook)
                    ok = one_init(&s, false, od, true, -1); /* and with dirty descriptors */
                g_hook = 0;
                if (hook || zero)
                    continue;
                if (ok && opt == 0)
                    ok = one_init(&s, true, od, false, -1);
                /* dirty descriptors and write faults are independent of which
                 * defaults are bad: run them for the all-good mask only */
                if (ok && mask == 0 && (opt == 0 || opt == 1 + 2 * na) && variant == 0)
                    ok = one_init(&s, false, od, true, -1);
                if (ok && mask == 0 && na > 0 && opt == 1 + 2 * na && variant == 0)
                    for (long k = 0; k < nr && ok; ++k)
                        ok = one_init(&s, false, od, false, k);
            }
    mc_end(true, !ok ? "failed" : n_ok == 0 ? "all-refused" : n_bad == 0 ? "all-accepted" : "mixed");
}

/* ---- family F: float default patterns ---------------------------------------------
 * "Every default that gets loaded is acceptable to its own register", for float
 * registers: every IEEE class of default pattern -- +-0, smallest / middle /
 * largest subnormal of either sign, smallest and largest normal of either sign,
 * 1.0, +-infinity, quiet / signalling / negative / all-ones NaN -- in an f32 or
 * f64 register under every constraint kind (none, min -1, max 1, range -1..1,
 * callback "not negative", always-fail), the register alone at every address
 * 0..5 of the layout or in a pair with a 16-bit register (good or bad default)
 * before or behind it, two area layouts x area options (plain, all
 * callback-backed, skip-defaults / no write callback per area), LE/BE.
 * Acceptable: zero or normal (what the typed set documents) and inside the
 * constraint; infinities and NaN never; for subnormal patterns both verdicts
 * are admissible (g_subnormal_ok).  Whatever is accepted in a loading area has
 * to read back bit for bit (C04/defaults-loaded). */
static const uint32_t F32_PAT[] = {
    0x00000000u, 0x80000000u, 0x00000001u, 0x80000001u, 0x00400000u, 0x007fffffu, 0x807fffffu, 0x00800000u, 0x80800000u,
    0x3f800000u, 0x7f7fffffu, 0xff7fffffu, 0x7f800000u, 0xff800000u, 0x7fc00000u, 0x7f800001u, 0xffc00000u, 0x7fffffffu,
};
static const uint64_t F64_PAT[] = {
    0x0000000000000000ull, 0x8000000000000000ull, 0x0000000000000001ull, 0x8000000000000001ull, 0x0008000000000000ull,
    0x000fffffffffffffull, 0x800fffffffffffffull, 0x0010000000000000ull, 0x8010000000000000ull,
    0x3ff0000000000000ull, 0x7fefffffffffffffull, 0xffefffffffffffffull, 0x7ff0000000000000ull, 0xfff0000000000000ull,
    0x7ff8000000000000ull, 0x7ff0000000000001ull, 0xfff8000000000000ull, 0x7fffffffffffffffull,
};
#define NFPAT 18

static void
mkfloat(struct rspec *r, RegisterType t, uint32_t addr, int ckind, int pat)
{
    memset(r, 0, sizeof *r);
    r->type = t;
    r->addr = addr;
    r->ckind = ckind;
    if (t == REG_TYPE_FLOAT32) {
        r->lo.f32 = -1.0f;
        r->hi.f32 = 1.0f;
        r->def = ref_from_bits(t, F32_PAT[pat]);
    } else {
        r->lo.f64 = -1.0;
        r->hi.f64 = 1.0;
        r->def = ref_from_bits(t, F64_PAT[pat]);
    }
}

static void
family_float(void)
{
    static const struct {
        int na;
        uint32_t base[2], size[2];
    } L[2] = { { 1, { 0 }, { 8 } }, { 2, { 0, 2 }, { 2, 6 } } };
    MC_ANCHOR(sizeof F32_PAT / sizeof F32_PAT[0] == NFPAT && sizeof F64_PAT / sizeof F64_PAT[0] == NFPAT, "float pattern tables");
    for (int li = 0; li < 2; ++li) {
        const int na = L[li].na;
        for (int opt = 0; opt < 2 + 2 * na; ++opt)
            /* lists: 0..11 the float register alone at address 0..5 (f32, f64);
             * 12..19 u16@0 (good/bad) + float@1 / @2; 20..27 float@0 + u16@4 (good/bad) / u16@2 (inside an f64: overlap) */
            for (int list = 0; list < 28; ++list) {
                const RegisterType ft = (list & 1) ? REG_TYPE_FLOAT64 : REG_TYPE_FLOAT32;
                char ld[80];
                if (list < 12)
                    snprintf(ld, sizeof ld, "%s@%d", TYPE_NAME[ft], list / 2);
                else if (list < 20)
                    snprintf(ld, sizeof ld, "u16@0 (%s default) %s@%d", (list & 2) ? "bad" : "good", TYPE_NAME[ft], (list & 4) ? 2 : 1);
                else
                    snprintf(ld, sizeof ld, "%s@0 u16@%d (%s default)", TYPE_NAME[ft], (list & 4) ? 2 : 4, (list & 2) ? "bad" : "good");
                char ad[40];
                if (na > 1)
                    snprintf(ad, sizeof ad, "%u+%u %u+%u", L[li].base[0], L[li].size[0], L[li].base[1], L[li].size[1]);
                else
                    snprintf(ad, sizeof ad, "%u+%u", L[li].base[0], L[li].size[0]);
                if (!mc_case("float defaults: areas[%s] opt=%d regs[%s] x 18 default patterns x 6 constraint kinds x LE/BE", ad, opt, ld))
                    continue;
                n_ok = n_bad = 0;
                bool ok = true;
                for (int ck = K_NONE; ck < K_NKINDS && ok; ++ck)
                    for (int pat = 0; pat < NFPAT && ok; ++pat)
                        for (int be = 0; be < 2 && ok; ++be) {
                            struct tspec s;
                            memset(&s, 0, sizeof s);
                            s.be = be;
                            s.na = na;
                            for (int i = 0; i < na; ++i) {
                                s.a[i] = (struct aspec){ L[li].base[i], L[li].size[i], REG_AF_RW, false, false };
                                if (opt == 1 + 2 * i)
                                    s.a[i].flags |= REG_AF_SKIP_DEFAULTS;
                                if (opt == 2 + 2 * i) {
                                    s.a[i].nowrite = true;
                                    s.a[i].flags = REG_AF_READABLE;
                                    s.a[i].cb = be;
                                }
                                if (opt == 1 + 2 * na)
                                    s.a[i].cb = true;
                            }
                            if (list < 12) {
                                s.nr = 1;
                                mkfloat(&s.r[0], ft, (uint32_t)(list / 2), ck, pat);
                            } else if (list < 20) {
                                s.nr = 2;
                                mkreg(&s.r[0], 0, 1, (list & 2) != 0, 0);
                                mkfloat(&s.r[1], ft, (list & 4) ? 2 : 1, ck, pat);
                            } else {
                                s.nr = 2;
                                mkfloat(&s.r[0], ft, 0, ck, pat);
                                mkreg(&s.r[1], (list & 4) ? 2 : 4, 1, (list & 2) != 0, 0);
                            }
                            char od[96];
                            snprintf(od, sizeof od, "float default pattern #%d (%016llx) constraint=%s %s", pat,
                                     (unsigned long long)(ft == REG_TYPE_FLOAT32 ? F32_PAT[pat] : F64_PAT[pat]), CKIND_NAME[ck], be ? "BE" : "LE");
                            ok = one_init(&s, false, od, false, -1);
                        }
                mc_end(true, !ok ? "failed" : n_ok == 0 ? "float-all-refused" : n_bad == 0 ? "float-all-accepted" : "float-mixed");
            }
    }
}

static const uint32_t RSZ[3] = { 1, 2, 4 };

/* all register lists of length 0..lr for one area list */
static void
enum_regs(const struct grid *g, const uint32_t *ab, const uint32_t *as, int na, int64_t *ncase)
{
    uint32_t ra[RT_MAXR], rs[RT_MAXR];
    const int per = (int)(g->raddr_max + 1) * 3;
    for (int len = 0; len <= g->lr; ++len) {
        int64_t total = 1;
        for (int i = 0; i < len; ++i)
            total *= per;
        for (int64_t x = 0; x < total; ++x) {
            int64_t y = x;
            for (int i = 0; i < len; ++i) {
                const int e = (int)(y % per);
                y /= per;
                ra[i] = (uint32_t)(e / 3);
                rs[i] = RSZ[e % 3];
            }
            run_lists(g, ab, as, na, ra, rs, len, ncase);
        }
    }
}

static void
enum_all(const struct grid *g, int64_t *ncase)
{
    uint32_t ab[RT_MAXA], as[RT_MAXA];
    const int per = (int)(g->abase_max + 1) * g->nasz;
    for (int len = 0; len <= g->la; ++len) {
        int64_t total = 1;
        for (int i = 0; i < len; ++i)
            total *= per;
        for (int64_t x = 0; x < total; ++x) {
            int64_t y = x;
            for (int i = 0; i < len; ++i) {
                const int e = (int)(y % per);
                y /= per;
                ab[i] = (uint32_t)(e / g->nasz);
                as[i] = g->asz[e % g->nasz];
            }
            enum_regs(g, ab, as, len, ncase);
        }
    }
}

/* =====================================================================================
 * Tables of any size: wide geometries, long lists, objects with a past
 * =====================================================================================
 * A second builder next to regtab.h's: area and register lists of any length,
 * callback-backed areas over a sparse store (so an area of 2^17 words costs
 * nothing), and descriptor arrays with a capacity that can be described again
 * (the internal fields of the descriptors -- area entry records, entry area
 * link/offset/flags, table flags and counts -- survive a new description, as
 * they do when firmware edits a table in place and initialises it again). */

#define GT_PAGES 16
#define GT_PAGE_WORDS 256
#define GT_SPARSE_MIN 4096 /* callback-backed areas above this size start on the paged store */

struct gtab {
    RegisterTable t;
    long capa, capr;
    RegisterArea *areas;    /* capa + 1, exact heap block */
    RegisterEntry *entries; /* capr + 1, exact heap block */
    long na, nr;            /* current description (borrowed arrays) */
    const struct aspec *a;
    const struct rspec *r;
    RegisterAtom **store;   /* per area slot; NULL: paged */
    uint32_t *store_words;
    /* paged store of the big callback-backed areas: words never written read
     * 0xa5a5; when the pages run out the area gets a real block */
    struct {
        long area;
        uint32_t page;
        RegisterAtom w[GT_PAGE_WORDS];
    } pg[GT_PAGES];
    int npg;
    long cb_oob, cb_writes;
};

static struct gtab *g_gt; /* the table the g_cb_* callbacks belong to */

static RegisterAtom *
g_page(struct gtab *g, long area, uint32_t page, bool create)
{
    for (int j = 0; j < g->npg; ++j)
        if (g->pg[j].area == area && g->pg[j].page == page)
            return g->pg[j].w;
    if (!create || g->npg == GT_PAGES)
        return NULL;
    g->pg[g->npg].area = area;
    g->pg[g->npg].page = page;
    memset(g->pg[g->npg].w, 0xa5, sizeof g->pg[g->npg].w);
    return g->pg[g->npg++].w;
}

/* the pages ran out: the area continues on a real block */
static void
g_promote(struct gtab *g, long area)
{
    const uint32_t words = g->a[area].size;
    RegisterAtom *blk = mc_exact((size_t)words * sizeof(RegisterAtom));
    memset(blk, 0xa5, (size_t)words * sizeof(RegisterAtom));
    for (int j = 0; j < g->npg; ++j)
        if (g->pg[j].area == area)
            for (uint32_t k = 0; k < GT_PAGE_WORDS; ++k) {
                const uint64_t off = (uint64_t)g->pg[j].page * GT_PAGE_WORDS + k;
                if (off < words)
                    blk[off] = g->pg[j].w[k];
            }
    g->store[area] = blk;
    g->store_words[area] = words;
}

/* the area a descriptor handed to an accessor describes: the table's own
 * descriptor by its place in the array; a copy of it (a library may hand the
 * accessor a snapshot of the descriptor) by the description fields the accessor
 * is entitled to read, looked up in the description.  -1: none. */
static long
g_cb_area_index(const struct gtab *g, const RegisterArea *a)
{
    const uintptr_t p = (uintptr_t)a, lo = (uintptr_t)g->areas;
    if (p >= lo && p < lo + (uintptr_t)g->na * sizeof(RegisterArea) && (p - lo) % sizeof(RegisterArea) == 0)
        return (long)((p - lo) / sizeof(RegisterArea));
    for (long i = 0; i < g->na; ++i)
        if (g->a[i].cb && g->a[i].base == a->base && g->a[i].size == a->size)
            return i;
    return -1;
}

static RegisterAccess
g_cb_read(const RegisterArea *a, RegisterAtom *dest, RegisterOffset off, RegisterOffset n)
{
    RegisterAccess rv = REG_ACCESS_RESULT_INIT;
    struct gtab *g = g_gt;
    const long i = g_cb_area_index(g, a);
    if (i < 0 || i >= g->na || (uint64_t)off + n > g->a[i].size) {
        g->cb_oob++;
        for (RegisterOffset k = 0; k < n; ++k)
            dest[k] = 0xdead;
        return rv;
    }
    if (g->store[i]) {
        memcpy(dest, g->store[i] + off, n * sizeof(RegisterAtom));
        return rv;
    }
    for (RegisterOffset k = 0; k < n; ++k) {
        const RegisterAtom *p = g_page(g, i, (off + k) / GT_PAGE_WORDS, false);
        dest[k] = p ? p[(off + k) % GT_PAGE_WORDS] : 0xa5a5;
    }
    return rv;
}

static RegisterAccess
g_cb_write(RegisterArea *a, const RegisterAtom *src, RegisterOffset off, RegisterOffset n)
{
    RegisterAccess rv = REG_ACCESS_RESULT_INIT;
    struct gtab *g = g_gt;
    const long i = g_cb_area_index(g, a);
    g->cb_writes++;
    if (i < 0 || i >= g->na || (uint64_t)off + n > g->a[i].size) {
        g->cb_oob++;
        return rv;
    }
    for (RegisterOffset k = 0; k < n; ++k) {
        if (!g->store[i]) {
            RegisterAtom *p = g_page(g, i, (off + k) / GT_PAGE_WORDS, true);
            if (p) {
                p[(off + k) % GT_PAGE_WORDS] = src[k];
                continue;
            }
            g_promote(g, i);
        }
        g->store[i][off + k] = src[k];
    }
    return rv;
}

static void
gtab_alloc(struct gtab *g, long capa, long capr)
{
    memset(g, 0, sizeof *g);
    g->capa = capa;
    g->capr = capr;
    g->areas = mc_exact((size_t)(capa + 1) * sizeof(RegisterArea));
    g->entries = mc_exact((size_t)(capr + 1) * sizeof(RegisterEntry));
    memset(g->areas, 0, (size_t)(capa + 1) * sizeof(RegisterArea));
    memset(g->entries, 0, (size_t)(capr + 1) * sizeof(RegisterEntry));
    g->store = calloc((size_t)capa + 1, sizeof *g->store);
    g->store_words = calloc((size_t)capa + 1, sizeof *g->store_words);
    if (!g->store || !g->store_words)
        mc_broken("out of memory");
}

static void
gtab_drop_stores(struct gtab *g)
{
    for (long i = 0; i < g->capa; ++i) {
        free(g->store[i]);
        g->store[i] = NULL;
        g->store_words[i] = 0;
    }
}

static void
gtab_free(struct gtab *g)
{
    if (!g->areas)
        return;
    gtab_drop_stores(g);
    free(g->store);
    free(g->store_words);
    free(g->areas);
    free(g->entries);
    memset(g, 0, sizeof *g);
}

/* a fresh object: zeroed descriptors, as static storage is */
static void
gtab_fresh(struct gtab *g)
{
    memset(g->areas, 0, (size_t)(g->capa + 1) * sizeof(RegisterArea));
    memset(g->entries, 0, (size_t)(g->capr + 1) * sizeof(RegisterEntry));
    memset(&g->t, 0, sizeof g->t);
}

static void
entry_describe(RegisterEntry *e, const struct rspec *r)
{
    e->type = r->type;
    e->default_value = r->def;
    e->address = r->addr;
    e->name = NULL;
    memset(&e->check, 0, sizeof e->check);
    switch (r->ckind) {
    case K_NONE: e->check.type = REGV_TYPE_TRIVIAL; break;
    case K_FAIL: e->check.type = REGV_TYPE_FAIL; break;
    case K_MIN: e->check.type = REGV_TYPE_MIN; e->check.arg.min = r->lo; break;
    case K_MAX: e->check.type = REGV_TYPE_MAX; e->check.arg.max = r->hi; break;
    case K_RANGE:
        e->check.type = REGV_TYPE_RANGE;
        e->check.arg.range.min = r->lo;
        e->check.arg.range.max = r->hi;
        break;
    case K_CB: e->check.type = REGV_TYPE_CALLBACK; e->check.arg.cb = rt_validator; break;
    }
}

/* writes the description (and the two sentinels) into the descriptor arrays;
 * everything else in them is left as it is.  real_cb: callback-backed areas
 * get a real block whatever their size. */
static void
gtab_describe(struct gtab *g, const struct aspec *a, long na, const struct rspec *r, long nr, bool be, bool real_cb)
{
    static const RegisterArea area_end = REGISTER_AREA_END;
    static const RegisterEntry entry_end = REGISTER_ENTRY_END;
    if (na > g->capa || nr > g->capr)
        mc_broken("gtab capacity");
    g->a = a;
    g->na = na;
    g->r = r;
    g->nr = nr;
    for (long i = 0; i < g->capa; ++i) {
        const bool want = i < na && !(a[i].cb && !real_cb && a[i].size > GT_SPARSE_MIN);
        if (!want || g->store_words[i] != a[i].size || !g->store[i]) {
            free(g->store[i]);
            g->store[i] = NULL;
            g->store_words[i] = 0;
            if (want) {
                g->store[i] = mc_exact((size_t)a[i].size * sizeof(RegisterAtom));
                g->store_words[i] = a[i].size;
            }
        }
        if (want)
            memset(g->store[i], 0xa5, (size_t)a[i].size * sizeof(RegisterAtom));
    }
    for (long i = 0; i < na; ++i) {
        RegisterArea *d = &g->areas[i];
        d->flags = a[i].flags;
        d->base = a[i].base;
        d->size = a[i].size;
        if (a[i].cb) {
            d->read = g_cb_read;
            d->write = a[i].nowrite ? NULL : g_cb_write;
            d->mem = NULL;
        } else {
            d->read = reg_mem_read;
            d->write = a[i].nowrite ? NULL : reg_mem_write;
            d->mem = g->store[i];
        }
    }
    g->areas[na] = area_end;
    for (long i = 0; i < nr; ++i)
        entry_describe(&g->entries[i], &r[i]);
    g->entries[nr] = entry_end;
    g->t.area = g->areas;
    g->t.entry = g->entries;
    register_make_bigendian(&g->t, be);
    g->npg = 0;
    g->cb_oob = g->cb_writes = 0;
    g_gt = g;
}

static bool
words_zero(const RegisterAtom *p, size_t n, size_t *where)
{
    static const RegisterAtom zero[512];
    size_t done = 0;
    while (done < n) {
        const size_t k = n - done < 512 ? n - done : 512;
        if (memcmp(p + done, zero, k * sizeof(RegisterAtom)) != 0) {
            for (size_t i = 0; i < k; ++i)
                if (p[done + i] != 0) {
                    *where = done + i;
                    return false;
                }
        }
        done += k;
    }
    return true;
}

static long *g_ai;
static long g_ai_cap;

static const char *lists_str(const struct aspec *a, long na, const struct rspec *r, long nr, char *buf, size_t n);

/* description of the table under test, formatted only when somebody reads it */
static const char *
g_desc(const struct gtab *g, const char *prefix)
{
    static char buf[420];
    const size_t l = (size_t)snprintf(buf, sizeof buf, "%s%s%s ", prefix, prefix[0] ? ": " : "", (g->t.flags & REG_TF_BIG_ENDIAN) ? "BE" : "LE");
    if (l < sizeof buf)
        lists_str(g->a, g->na, g->r, g->nr, buf + l, sizeof buf - l);
    return buf;
}
#define odesc g_desc(g, prefix)

/* initialise the described table and hold the result against the statement */
static bool
g_init_and_check(struct gtab *g, const char *prefix, bool *accepted)
{
    struct expect e;
    const struct aspec *a = g->a;
    const struct rspec *r = g->r;
    const long na = g->na, nr = g->nr;
    reference_lists(a, na, r, nr, &e);
    RegisterInit ri = register_init(&g->t);
    mc_trans(1);
    long idx = -1;
    switch (ri.code) {
    case REG_INIT_AREA_INVALID_ORDER: case REG_INIT_AREA_ADDRESS_OVERLAP: idx = ri.pos.area; break;
    case REG_INIT_ENTRY_INVALID_ORDER: case REG_INIT_ENTRY_ADDRESS_OVERLAP:
    case REG_INIT_ENTRY_IN_MEMORY_HOLE: case REG_INIT_ENTRY_INVALID_DEFAULT: idx = ri.pos.entry; break;
    default: break;
    }
    if (mc.only >= 0)
        mc_log("%s -> %s@%ld; reference: %s", odesc, initname(ri.code), idx, expect_str(&e));
    const bool want_success = e.code[0] == REG_INIT_SUCCESS;
    bool match = false;
    for (int i = 0; i < e.n; ++i)
        if (ri.code == e.code[i] && (e.index[i] < 0 || e.index[i] == idx))
            match = true;
    *accepted = ri.code == REG_INIT_SUCCESS;
    g_over_limit = false;
    if ((ri.code == REG_INIT_TOO_MANY_ENTRIES && (uint64_t)nr >= lib_register_limit())
        || (ri.code == REG_INIT_TOO_MANY_AREAS && (uint64_t)na >= lib_area_limit())) {
        /* the library's documented size limit: admissible whatever else the
         * description holds, with any index; the table is then uninitialised */
        g_over_limit = true;
        note_over_limit();
        n_bad++;
        return check_uninitialised(&g->t, na ? a[0].base : 0, nr, odesc, 0, ri.code);
    }
    if (!match) {
        if (want_success)
            mc_fail("C04/accepts-well-formed", "%s: well-formed table refused with %s@%ld", odesc, initname(ri.code), idx);
        else if (ri.code == REG_INIT_SUCCESS)
            mc_fail("C04/refuses-malformed", "%s: malformed table accepted; reference says %s@%ld", odesc, initname(e.code[0]), e.index[0]);
        else
            mc_fail("C04/first-violated-rule", "%s: reported %s@%ld; the minimal violations are %s", odesc, initname(ri.code), idx, expect_str(&e));
        return false;
    }
    if (!want_success) {
        n_bad++;
        return check_uninitialised(&g->t, na ? a[0].base : 0, nr, odesc, 0, ri.code);
    }
    n_ok++;
    if (nr > g_ai_cap) {
        free(g_ai);
        g_ai_cap = nr + 16;
        g_ai = malloc((size_t)g_ai_cap * sizeof *g_ai);
        if (!g_ai)
            mc_broken("out of memory");
    }
    /* each register of an area that loads defaults reads back its default */
    for (long i = 0; i < nr; ++i) {
        const long ai = g_ai[i] = area_containing_whole_l(a, na, &r[i]);
        if (!area_loads_default(&a[ai]))
            continue;
        RegisterValue v;
        memset(&v, 0, sizeof v);
        RegisterAccess ga = register_get(&g->t, (RegisterHandle)i, &v);
        mc_trans(1);
        if (ga.code != REG_ACCESS_SUCCESS || v.type != r[i].type || ref_bits(v.type, v.value) != ref_bits(r[i].type, r[i].def)) {
            mc_fail("C04/defaults-loaded", "%s: register %ld reads %016llx (code %d), default is %016llx", odesc, i,
                    (unsigned long long)ref_bits(r[i].type, v.value), ga.code, (unsigned long long)ref_bits(r[i].type, r[i].def));
            return false;
        }
    }
    /* every other word of memory-backed areas is zero; registers are
     * ascending here, and so are the areas */
    {
        long i = 0;
        for (long ai = 0; ai < na; ++ai) {
            uint32_t w = 0; /* next word of the area to be looked at */
            const bool look = !a[ai].cb;
            size_t where = 0;
            while (i < nr && g_ai[i] < ai)
                ++i;
            for (; i < nr && g_ai[i] == ai; ++i) {
                if (!area_loads_default(&a[ai]))
                    continue;
                const uint32_t off = r[i].addr - a[ai].base;
                if (look && !words_zero(g->store[ai] + w, off - w, &where)) {
                    mc_fail("C04/other-words-zero", "%s: area %ld word %lu is %04x after init", odesc, ai, (unsigned long)(w + where), g->store[ai][w + where]);
                    return false;
                }
                w = off + ref_words(r[i].type);
            }
            if (look && !words_zero(g->store[ai] + w, a[ai].size - w, &where)) {
                mc_fail("C04/other-words-zero", "%s: area %ld word %lu is %04x after init", odesc, ai, (unsigned long)(w + where), g->store[ai][w + where]);
                return false;
            }
        }
    }
    /* each area records exactly the contiguous run of registers located in it */
    {
        long i = 0;
        for (long ai = 0; ai < na; ++ai) {
            while (i < nr && g_ai[i] < ai)
                ++i;
            const long first = i;
            while (i < nr && g_ai[i] == ai)
                ++i;
            const long cnt = i - first;
            const RegisterArea *d = &g->areas[ai];
            if ((long)d->entry.count != cnt || (cnt > 0 && ((long)d->entry.first != first || (long)d->entry.last != first + cnt - 1))) {
                mc_fail("C04/area-entry-range", "%s: area %ld records first=%lu last=%lu count=%lu; %ld registers from index %ld lie in it", odesc, ai,
                        (unsigned long)d->entry.first, (unsigned long)d->entry.last, (unsigned long)d->entry.count, cnt, cnt ? first : -1L);
                return false;
            }
        }
    }
    return true;
}

#undef odesc

static const char *
lists_str(const struct aspec *a, long na, const struct rspec *r, long nr, char *buf, size_t n)
{
    size_t l = (size_t)snprintf(buf, n, "areas[");
    for (long i = 0; i < na && i < 4 && l + 40 < n; ++i)
        l += (size_t)snprintf(buf + l, n - l, "%s0x%x+0x%x%s", i ? " " : "", a[i].base, a[i].size, a[i].cb ? ":cb" : "");
    if (na > 4 && l + 40 < n)
        l += (size_t)snprintf(buf + l, n - l, " ..(%ld)", na);
    if (l + 40 < n)
        l += (size_t)snprintf(buf + l, n - l, "] regs[");
    for (long i = 0; i < nr && i < 4 && l + 40 < n; ++i)
        l += (size_t)snprintf(buf + l, n - l, "%s0x%x+%u%s", i ? " " : "", r[i].addr, ref_words(r[i].type), default_acceptable(&r[i]) ? "" : "!");
    if (nr > 4 && l + 40 < n)
        l += (size_t)snprintf(buf + l, n - l, " ..(%ld)", nr);
    if (l + 2 < n)
        snprintf(buf + l, n - l, "]");
    return buf;
}

/* ---- family W: wide geometries ----------------------------------------------------
 * One area of S words at base B (S and B from a boundary family around 2^16,
 * 2^17, 2^31 and the top of the address space), optionally with a small
 * neighbour before or behind it; register lists of length 0..2 (3: thorough)
 * over the addresses around the area start, around offset 2^16 inside it and
 * around its end, sizes 1/2/4, in every order.  Register extents that would
 * run past address 2^32-1 are not generated (wrapping ranges are outside the
 * statement); areas may end exactly at 2^32. */

static int
wide_addresses(uint64_t B, uint64_t S, uint64_t *out)
{
    uint64_t cand[32];
    int n = 0;
    for (int d = -2; d <= 1; ++d)
        cand[n++] = B + (uint64_t)(int64_t)d;
    for (int d = -2; d <= 1; ++d)
        if (0x10000u + d < S + 4)
            cand[n++] = B + 0x10000u + (uint64_t)(int64_t)d;
    for (int d = -4; d <= 2; ++d)
        cand[n++] = B + S + (uint64_t)(int64_t)d;
    int m = 0;
    for (int i = 0; i < n; ++i) {
        if (cand[i] > 0xffffffffull) /* includes the wrapped negatives */
            continue;
        bool dup = false;
        for (int j = 0; j < m; ++j)
            if (out[j] == cand[i])
                dup = true;
        if (!dup)
            out[m++] = cand[i];
    }
    for (int i = 1; i < m; ++i)
        for (int j = i; j > 0 && out[j] < out[j - 1]; --j) {
            const uint64_t t = out[j];
            out[j] = out[j - 1];
            out[j - 1] = t;
        }
    return m;
}

static struct gtab wg;

static void
family_wide(bool thorough)
{
    static const uint64_t SZ[] = { 6, 0xffff, 0x10000, 0x10001, 0x10004, 0x1ffff, 0x20001 };
    enum { NSZ = 7 };
    for (int si = 0; si < NSZ; ++si) {
        const uint64_t S = SZ[si];
        uint64_t bases[12];
        int nb = 0;
        bases[nb++] = 0;
        bases[nb++] = 0x1000;
        bases[nb++] = 0xfffd;
        bases[nb++] = 0x10000;
        bases[nb++] = 0x7ffffffeull;
        bases[nb++] = 0x80000000ull - S;
        bases[nb++] = 0x100000000ull - S - 5;
        bases[nb++] = 0x100000000ull - S - 2;
        bases[nb++] = 0x100000000ull - S - 1;
        bases[nb++] = 0x100000000ull - S;
        for (int bi = 0; bi < nb; ++bi)
            for (int nbr = 0; nbr < 6; ++nbr)
                for (int backing = 0; backing < 2; ++backing) {
                    const uint64_t B = bases[bi];
                    /* neighbour: 0 none, 1 adjacent behind, 2 one word behind, 3 adjacent before,
                     * 4 on the last two words (overlap), 5 adjacent before but listed behind (order) */
                    struct aspec a[2];
                    long na = 0;
                    memset(a, 0, sizeof a);
                    const struct aspec mainarea = { (uint32_t)B, (uint32_t)S, REG_AF_RW, backing == 0, false };
                    if (nbr == 3) {
                        if (B < 4)
                            continue;
                        a[na++] = (struct aspec){ (uint32_t)(B - 4), 4, REG_AF_RW, backing == 0, false };
                    }
                    a[na++] = mainarea;
                    if (nbr == 1 || nbr == 2) {
                        const uint64_t b2 = B + S + (nbr == 2);
                        if (b2 + 4 > 0x100000000ull)
                            continue;
                        a[na++] = (struct aspec){ (uint32_t)b2, 4, REG_AF_RW, backing == 0, false };
                    }
                    if (nbr == 4)
                        a[na++] = (struct aspec){ (uint32_t)(B + S - 2), 2, REG_AF_RW, backing == 0, false };
                    if (nbr == 5) {
                        if (B < 4)
                            continue;
                        a[na++] = (struct aspec){ (uint32_t)(B - 4), 4, REG_AF_RW, backing == 0, false };
                    }
                    if (!mc_case("wide: area 0x%llx+0x%llx %s, neighbour %s x register lists around start / offset 2^16 / end x bad-default masks x variants",
                                 (unsigned long long)B, (unsigned long long)S, backing == 0 ? "callback-backed" : "memory-backed",
                                 nbr == 0 ? "none" : nbr == 1 ? "adjacent behind" : nbr == 2 ? "one word behind" : nbr == 3 ? "adjacent before"
                                 : nbr == 4 ? "on its last two words" : "adjacent before but listed behind"))
                        continue;
                    if (!wg.areas)
                        gtab_alloc(&wg, 2, 3);
                    uint64_t ia[32];
                    const int nia = wide_addresses(B, S, ia);
                    const int per = nia * 3;
                    /* memory-backed: single registers and pairs led by a 16-bit
                     * register at the area base (every init fills and scans the
                     * whole block); callback-backed: every list */
                    const int maxlen = nbr >= 4 ? 1 : (backing == 1) ? 2 : (thorough ? 3 : 2); /* a malformed area list is refused whatever the registers are */
                    n_ok = n_bad = 0;
                    bool ok = true;
                    struct rspec r[3];
                    for (int len = 0; len <= maxlen && ok; ++len) {
                        int64_t total = 1;
                        for (int i = 0; i < len; ++i)
                            total *= per;
                        for (int64_t x = 0; x < total && ok; ++x) {
                            uint64_t addr[3];
                            uint32_t words[3];
                            int64_t y = x;
                            bool skip = false;
                            for (int i = 0; i < len; ++i) {
                                const int el = (int)(y % per);
                                y /= per;
                                addr[i] = ia[el / 3];
                                words[i] = RSZ[el % 3];
                                if (addr[i] + words[i] > 0x100000000ull)
                                    skip = true;
                            }
                            if (skip)
                                continue;
                            if (backing == 1 && len == 2 && !(addr[0] == B && words[0] == 1))
                                continue;
                            if (len == 3 && !(addr[0] <= addr[1] && addr[1] <= addr[2]))
                                continue; /* three registers: ascending starts only */
                            const int nmask = backing == 1 ? 1 : 1 << len;
                            for (int mask = 0; mask < nmask && ok; ++mask)
                                for (int variant = 0; variant < (backing == 1 ? 1 : 2) && ok; ++variant) {
                                    for (int i = 0; i < len; ++i)
                                        mkreg(&r[i], (uint32_t)addr[i], words[i], (mask >> i) & 1, variant + i);
                                    gtab_fresh(&wg);
                                    gtab_describe(&wg, a, na, r, len, variant, false);
                                    bool acc;
                                    ok = g_init_and_check(&wg, "", &acc);
                                }
                        }
                    }
                    mc_end(true, !ok ? "failed" : n_ok == 0 ? "wide-all-refused" : n_bad == 0 ? "wide-all-accepted" : "wide-mixed");
                }
    }
}

/* ---- family N: long register lists ---------------------------------------------------
 * N 16-bit registers at the even addresses 0, 2, 4, ... (N from a boundary
 * family around 2^8 and 2^16) in one area, or in two areas with one unmapped
 * word between them after register s (s around the same boundaries); exactly
 * one rule is violated at a chosen index k around the boundaries (or none):
 *   order    register k starts below register k-1
 *   overlap  register k starts where register k-1 starts
 *   default  register k has a default its range refuses
 *   hole     register s+1 starts on the unmapped word (two areas)
 *   straddle register s is 32 bits wide: its second word is the unmapped one
 *   beyond   the last register starts behind the last area
 * After success every register is read back, so handles, area-relative
 * offsets and the entry records of the second area straddle the boundaries,
 * too. */

enum nkind { NK_NONE, NK_ORDER, NK_OVERLAP, NK_DEFAULT, NK_HOLE, NK_STRADDLE, NK_BEYOND, NK_KINDS };
static const char *NK_NAME[] = { "none", "order", "overlap", "bad default", "hole", "straddle", "beyond the last area" };

static struct gtab ng;
static struct rspec *n_regs;
static long n_regs_cap;

static void
long_case(long N, long s, int kind, long k, bool cb)
{
    char where[48];
    if (s < 0)
        snprintf(where, sizeof where, "one area");
    else
        snprintf(where, sizeof where, "two areas, word %ld between them unmapped", 2 * s + 1);
    char rule[64];
    if (kind == NK_NONE)
        snprintf(rule, sizeof rule, "no rule violated");
    else
        snprintf(rule, sizeof rule, "violated rule: %s at register %ld", NK_NAME[kind], k);
    if (!mc_case("long list: %ld 16-bit registers at even addresses, %s, %s; %s", N, where, cb ? "callback-backed" : "memory-backed", rule))
        return;
    if (!ng.areas)
        gtab_alloc(&ng, 2, 65600);
    if (N > ng.capr)
        mc_broken("long list capacity");
    if (!n_regs) {
        n_regs_cap = 65600;
        n_regs = malloc((size_t)n_regs_cap * sizeof *n_regs);
        if (!n_regs)
            mc_broken("out of memory");
    }
    struct aspec a[2];
    long na;
    memset(a, 0, sizeof a);
    if (s < 0) {
        a[0] = (struct aspec){ 0, (uint32_t)(2 * N + 2), REG_AF_RW, cb, false };
        na = 1;
    } else {
        a[0] = (struct aspec){ 0, (uint32_t)(2 * s + 1), REG_AF_RW, cb, false };
        a[1] = (struct aspec){ (uint32_t)(2 * s + 2), (uint32_t)(2 * N + 4 - (2 * s + 2)), REG_AF_RW, cb, false };
        na = 2;
    }
    for (long i = 0; i < N; ++i)
        mkreg(&n_regs[i], (uint32_t)(2 * i), 1, false, 0);
    switch (kind) {
    case NK_ORDER: n_regs[k].addr = (uint32_t)(2 * k - 3); break;
    case NK_OVERLAP: n_regs[k].addr = (uint32_t)(2 * k - 2); break;
    case NK_DEFAULT: mkreg(&n_regs[k], (uint32_t)(2 * k), 1, true, 0); break;
    case NK_HOLE: n_regs[k].addr = (uint32_t)(2 * k - 1); break;        /* k == s + 1: the unmapped word */
    case NK_STRADDLE: mkreg(&n_regs[k], (uint32_t)(2 * k), 2, false, 0); break; /* k == s */
    case NK_BEYOND: n_regs[k].addr = (uint32_t)(2 * N + 4); break;      /* k == N - 1 */
    default: break;
    }
    gtab_fresh(&ng);
    gtab_describe(&ng, a, na, n_regs, N, (N & 1) != 0, true);
    n_ok = n_bad = 0;
    bool acc;
    const bool ok = g_init_and_check(&ng, "", &acc);
    if (ok && g_over_limit)
        mc_end(false, "long-over-limit");
    else
        mc_end(true, !ok ? "failed" : acc ? "long-accepted" : "long-refused");
}

static void
family_long(bool thorough)
{
    static const long NQ[] = { 255, 256, 257, 258, 65535, 65536, 65537, 65538 };
    for (unsigned ni = 0; ni < sizeof NQ / sizeof NQ[0]; ++ni) {
        const long N = NQ[ni];
        const long b = N < 1000 ? 256 : 65536;
        /* split positions and violation indices around the boundary */
        long ss[5], ns = 0;
        ss[ns++] = -1;
        for (long d = -2; d <= 1; ++d)
            if (b + d >= 1 && b + d <= N - 2)
                ss[ns++] = b + d;
        for (long si = 0; si < ns; ++si)
            for (int cb = 0; cb < 2; ++cb) {
                const long s = ss[si];
                if (cb && !thorough && !(s < 0 || s == b))
                    continue; /* quick: callback-backed for one area and for the split on the boundary */
                long_case(N, s, NK_NONE, 0, cb);
                for (int kind = NK_ORDER; kind <= NK_DEFAULT; ++kind) {
                    long ks[6], nk = 0;
                    ks[nk++] = 2;
                    for (long d = -1; d <= 1; ++d)
                        if (b + d >= 2 && b + d < N - 1)
                            ks[nk++] = b + d;
                    ks[nk++] = N - 1;
                    for (long ki = 0; ki < nk; ++ki) {
                        /* the unmapped word sits between registers s and s+1:
                         * order/overlap edits that would move a register across
                         * it change which rule is violated first -- the
                         * reference decides, nothing to exclude */
                        long_case(N, s, kind, ks[ki], cb);
                    }
                }
                if (s >= 0) {
                    long_case(N, s, NK_HOLE, s + 1, cb);
                    long_case(N, s, NK_STRADDLE, s, cb);
                }
                long_case(N, s, NK_BEYOND, N - 1, cb);
            }
    }
}

/* ---- family A: long area lists -------------------------------------------------------
 * NA areas of 4 words at bases 0, 8, 16, ... (NA around 2^8), one 16-bit
 * register in every area (or only in the areas whose index is not 1 mod 3, so
 * that empty areas lie between populated ones); one rule violated at an index
 * k around 2^8, or none:
 *   area order    area k starts one word below area k-1
 *   area overlap  area k starts on the last word of area k-1
 *   hole          the register of area k starts behind it, in the gap
 *   straddle      the register of area k is 32 bits wide on the area's last word
 *   default       the register of area k has a default its range refuses */

enum akind { AK_NONE, AK_AORDER, AK_AOVERLAP, AK_HOLE, AK_STRADDLE, AK_DEFAULT, AK_KINDS };
static const char *AK_NAME[] = { "none", "area order", "area overlap", "hole", "straddle", "bad default" };

static struct gtab ag;

static void
family_areas(bool thorough)
{
    (void)thorough;
    static struct aspec a[300];
    static struct rspec r[300];
    for (long NA = 254; NA <= 258; ++NA)
        for (int sparse = 0; sparse < 2; ++sparse)
            for (int cb = 0; cb < 2; ++cb)
                for (int kind = AK_NONE; kind < AK_KINDS; ++kind) {
                    static const long KS[] = { 3, 254, 255, 256, 257 };
                    for (unsigned ki = 0; ki < (kind == AK_NONE ? 1 : 5); ++ki) {
                        const long k = KS[ki];
                        if (kind != AK_NONE && k >= NA)
                            continue;
                        char rule[64];
                        if (kind == AK_NONE)
                            snprintf(rule, sizeof rule, "no rule violated");
                        else
                            snprintf(rule, sizeof rule, "violated rule: %s at index %ld", AK_NAME[kind], k);
                        if (!mc_case("long area list: %ld areas of 4 words at multiples of 8, %s, %s; %s", NA,
                                     sparse ? "a register in every area whose index is not 1 mod 3" : "a register in every area",
                                     cb ? "callback-backed" : "memory-backed", rule))
                            continue;
                        if (!ag.areas)
                            gtab_alloc(&ag, 300, 300);
                        memset(a, 0, sizeof a);
                        for (long i = 0; i < NA; ++i)
                            a[i] = (struct aspec){ (uint32_t)(8 * i), 4, REG_AF_RW, cb, false };
                        if (kind == AK_AORDER)
                            a[k].base = a[k - 1].base - 1;
                        if (kind == AK_AOVERLAP)
                            a[k].base = a[k - 1].base + 3;
                        long nr = 0;
                        for (long i = 0; i < NA; ++i) {
                            /* the area the violation is about always has its register */
                            if (sparse && i % 3 == 1 && i != k)
                                continue;
                            uint32_t addr = (uint32_t)(8 * i + (i & 3));
                            if (kind == AK_AORDER && i == k)
                                addr = a[k].base; /* stays inside the moved area */
                            if (kind == AK_AOVERLAP && i == k)
                                addr = a[k].base + 1;
                            if (i == k && kind == AK_HOLE)
                                mkreg(&r[nr], (uint32_t)(8 * i + 4 + (i & 1)), 1, false, 0);
                            else if (i == k && kind == AK_STRADDLE)
                                mkreg(&r[nr], (uint32_t)(8 * i + 3), 2, false, 0);
                            else if (i == k && kind == AK_DEFAULT)
                                mkreg(&r[nr], addr, 1, true, 0);
                            else
                                mkreg(&r[nr], addr, 1, false, 0);
                            nr++;
                        }
                        gtab_fresh(&ag);
                        gtab_describe(&ag, a, NA, r, nr, (NA & 1) != 0, false);
                        n_ok = n_bad = 0;
                        bool acc;
                        const bool ok = g_init_and_check(&ag, "", &acc);
                        if (ok && g_over_limit)
                            mc_end(false, "long-over-limit");
                        else
                            mc_end(true, !ok ? "failed" : acc ? "long-accepted" : "long-refused");
                    }
                }
}

/* ---- family H: table objects with a past ----------------------------------------------
 * Every ordered pair (D1, D2) of descriptions from a family: the descriptor
 * arrays are described with D1 and initialised (successfully or not), then
 * described with D2 in place and initialised again.  The verdict on D2 and all
 * post-conditions are the statement's, exactly as for a fresh object; on top,
 * the re-initialised object and a fresh object with description D2 must iterate
 * alike over every window.
 *
 * Reduction: what the first initialisation leaves behind is the internal part
 * of the descriptors (table flags and counts; per area slot the entry record;
 * per entry slot the area link, offset and flags).  The D1 are grouped by that
 * residue (full comparison of a canonical key), and every D2 is run once per
 * distinct residue, with the first D1 producing it named in the report.  A
 * case is one D2; case numbering does not depend on the library. */

#define H_CAPA 3
#define H_CAPR 4

struct hdesc {
    int na, nr;
    struct aspec a[H_CAPA];
    struct rspec r[H_CAPR];
    bool be;
};

struct hresidue {
    RegisterTable t;
    RegisterArea areas[H_CAPA + 1];
    RegisterEntry entries[H_CAPR + 1];
    char text[230]; /* the first D1 that leaves it behind */
};

/* what a first initialisation leaves behind, without naming any internal
 * field: the byte image of the table, area and entry objects with every field
 * the public header documents as part of the description (and the pointers to
 * the description) overwritten by a canonical value.  Pointers the library
 * keeps inside its objects point into the one descriptor block of this
 * process, so equal residues have equal images. */
struct hkey {
    unsigned char t[sizeof(RegisterTable)];
    unsigned char a[(H_CAPA + 1) * sizeof(RegisterArea)];
    unsigned char e[(H_CAPR + 1) * sizeof(RegisterEntry)];
};

typedef void (*hfn)(const struct hdesc *d);

static void
hdesc_emit(hfn fn, const struct aspec *a, int na, bool cb, const uint32_t *ra, const uint32_t *rw, const bool *bad, int nr, int variant)
{
    struct hdesc d;
    memset(&d, 0, sizeof d);
    d.na = na;
    d.nr = nr;
    d.be = variant & 1;
    for (int i = 0; i < na; ++i) {
        d.a[i] = a[i];
        d.a[i].cb = cb;
    }
    for (int i = 0; i < nr; ++i)
        mkreg(&d.r[i], ra[i], rw[i], bad[i], variant + i);
    fn(&d);
}

/* The family, in a fixed order.  Area layouts over addresses 0..8: none, one,
 * two and three areas, adjacent and with holes, reversed, overlapping.
 * Register lists over addresses 0..7:
 *   quick     sizes {1,2}: every list of length 0..2 (last default good/bad),
 *             every triple with non-descending starts, every strictly
 *             ascending 16-bit quadruple; memory-backed, and callback-backed
 *             for the lists of length 0..2
 *   thorough  sizes {1,2,4}: every list of length 0..3 (last default
 *             good/bad), the quadruples; 12 layouts; memory-backed, and
 *             callback-backed for the lists of length 0..2 */
static void
hfamily_enumerate(bool thorough, hfn fn)
{
    static const struct {
        int na;
        uint32_t base[3], size[3];
    } L[] = {
        { 0, { 0 }, { 0 } },
        { 1, { 0 }, { 4 } },
        { 2, { 0, 2 }, { 2, 2 } },
        { 2, { 0, 3 }, { 2, 2 } },
        { 3, { 0, 2, 4 }, { 2, 2, 2 } },
        { 3, { 0, 3, 6 }, { 2, 2, 2 } },
        { 2, { 2, 0 }, { 2, 2 } },
        { 2, { 0, 2 }, { 3, 2 } },
        /* thorough only from here */
        { 1, { 1 }, { 6 } },
        { 3, { 1, 3, 4 }, { 2, 1, 4 } },
        { 3, { 0, 4, 2 }, { 2, 2, 2 } },
        { 2, { 0, 4 }, { 4, 4 } },
    };
    const int nl = thorough ? 12 : 8;
    const uint32_t amax = 7;
    const int nsz = thorough ? 3 : 2;
    const int per = (int)(amax + 1) * nsz;
    const int nback = 2;
    for (int li = 0; li < nl; ++li)
        for (int back = 0; back < nback; ++back) {
            struct aspec a[3];
            memset(a, 0, sizeof a);
            for (int i = 0; i < L[li].na; ++i)
                a[i] = (struct aspec){ L[li].base[i], L[li].size[i], REG_AF_RW, false, false };
            uint32_t ra[4], rw[4];
            bool bad[4] = { false, false, false, false };
            const int variant = li & 1;
            hdesc_emit(fn, a, L[li].na, back, ra, rw, bad, 0, variant);
            for (int len = 1; len <= (back ? 2 : 3); ++len) { /* callback-backed: lists of length 0..2 */
                int total = 1;
                for (int i = 0; i < len; ++i)
                    total *= per;
                for (int x = 0; x < total; ++x) {
                    int y = x;
                    for (int i = 0; i < len; ++i) {
                        const int el = y % per;
                        y /= per;
                        ra[i] = (uint32_t)(el / nsz);
                        rw[i] = RSZ[el % nsz];
                    }
                    if (len == 3 && !thorough && !(ra[0] <= ra[1] && ra[1] <= ra[2]))
                        continue;
                    for (int b = 0; b < 2; ++b) {
                        if (b && len == 3 && !thorough)
                            continue;
                        bad[0] = bad[1] = bad[2] = false;
                        bad[len - 1] = b;
                        hdesc_emit(fn, a, L[li].na, back, ra, rw, bad, len, variant);
                    }
                }
            }
            bad[0] = bad[1] = bad[2] = bad[3] = false;
            if (back)
                continue;
            for (uint32_t w = 0; w <= amax; ++w)
                for (uint32_t x = w + 1; x <= amax; ++x)
                    for (uint32_t y = x + 1; y <= amax; ++y)
                        for (uint32_t z = y + 1; z <= amax; ++z) {
                            ra[0] = w; ra[1] = x; ra[2] = y; ra[3] = z;
                            rw[0] = rw[1] = rw[2] = rw[3] = 1;
                            hdesc_emit(fn, a, L[li].na, back, ra, rw, bad, 4, variant);
                        }
        }
}

static struct hresidue *hres;
static int nhres, hres_cap;
static long nhd;
static struct gtab hg, hf;
static struct mc_set hset;
static bool h_thorough;

static void
hkey_of(const struct gtab *g, struct hkey *k)
{
    RegisterTable t;
    static RegisterArea ar[H_CAPA + 1];
    static RegisterEntry en[H_CAPR + 1];
    memset(k, 0, sizeof *k);
    memcpy(&t, &g->t, sizeof t);
    t.area = NULL;
    t.entry = NULL;
    register_make_bigendian(&t, false); /* the byte order belongs to the description */
    memcpy(ar, g->areas, sizeof ar);
    for (int i = 0; i <= H_CAPA; ++i) {
        ar[i].read = NULL;
        ar[i].write = NULL;
        ar[i].flags = 0;
        ar[i].base = 0;
        ar[i].size = 0;
        ar[i].mem = NULL;
#ifdef REGISTER_TABLE_WITH_AREA_USER_DATA
        ar[i].user = NULL;
#endif
    }
    memcpy(en, g->entries, sizeof en);
    for (int i = 0; i <= H_CAPR; ++i) {
        en[i].type = REG_TYPE_UINT16;
        memset(&en[i].default_value, 0, sizeof en[i].default_value);
        en[i].address = 0;
        memset(&en[i].check, 0, sizeof en[i].check);
        en[i].name = NULL;
        en[i].user = NULL;
    }
    memcpy(k->t, &t, sizeof t);
    memcpy(k->a, ar, sizeof ar);
    memcpy(k->e, en, sizeof en);
}

static void
hresidue_take(const struct gtab *g, const struct hdesc *d1)
{
    if (nhres == hres_cap) {
        hres_cap = hres_cap ? 2 * hres_cap : 256;
        hres = realloc(hres, (size_t)hres_cap * sizeof *hres);
        if (!hres)
            mc_broken("out of memory");
    }
    struct hresidue *r = &hres[nhres++];
    memset(r, 0, sizeof *r);
    r->t = g->t;
    memcpy(r->areas, g->areas, sizeof r->areas);
    memcpy(r->entries, g->entries, sizeof r->entries);
    if (!d1)
        snprintf(r->text, sizeof r->text, "fresh object");
    else {
        char ptext[200];
        snprintf(r->text, sizeof r->text, "object initialised before with %s %s", d1->be ? "BE" : "LE",
                 lists_str(d1->a, d1->na, d1->r, d1->nr, ptext, sizeof ptext));
    }
}

static void
hresidue_put(struct gtab *g, const struct hresidue *r)
{
    g->t = r->t;
    memcpy(g->areas, r->areas, sizeof r->areas);
    memcpy(g->entries, r->entries, sizeof r->entries);
    /* the blocks behind the old description are gone: no descriptor keeps a
     * pointer to them (the new description sets the ones it uses) */
    for (int i = 0; i <= H_CAPA; ++i)
        g->areas[i].mem = NULL;
}

static void
hresidue_visit(const struct hdesc *d)
{
    struct hkey k;
    gtab_fresh(&hg);
    gtab_describe(&hg, d->a, d->na, d->r, d->nr, d->be, false);
    (void)register_init(&hg.t);
    hkey_of(&hg, &k);
    if (mc_set_add(&hset, &k, sizeof k, -1, 0, NULL))
        hresidue_take(&hg, d);
}

/* all residues of the family, in the order of their first D1 */
static void
hresidues_build(void)
{
    struct hkey k;
    mc_set_init(&hset);
    nhres = 0;
    gtab_fresh(&hg);
    hkey_of(&hg, &k);
    mc_set_add(&hset, &k, sizeof k, -1, 0, NULL);
    hresidue_take(&hg, NULL);
    hfamily_enumerate(h_thorough, hresidue_visit);
    mc_set_free(&hset);
}

static void
hcase_visit(const struct hdesc *D)
{
    char dtext[200];
    nhd++;
    if (!mc_would_run()) {
        mc_skip_case();
        return;
    }
    lists_str(D->a, D->na, D->r, D->nr, dtext, sizeof dtext);
    if (!mc_case("re-initialisation: %s %s after every first description of the family (by residue)", D->be ? "BE" : "LE", dtext))
        return;
    if (!hg.areas) {
        gtab_alloc(&hg, H_CAPA, H_CAPR);
        gtab_alloc(&hf, H_CAPA, H_CAPR);
        hresidues_build();
    }
    n_ok = n_bad = 0;
    /* the fresh twin */
    gtab_fresh(&hf);
    gtab_describe(&hf, D->a, D->na, D->r, D->nr, D->be, false);
    const bool fresh_ok = register_init(&hf.t).code == REG_INIT_SUCCESS;
    mc_trans(1);
    uint32_t hi = 0;
    for (int i = 0; i < D->na; ++i)
        if (D->a[i].base + D->a[i].size > hi)
            hi = D->a[i].base + D->a[i].size;
    bool ok = true;
    for (int ri = 0; ri < nhres && ok; ++ri) {
        hresidue_put(&hg, &hres[ri]);
        gtab_describe(&hg, D->a, D->na, D->r, D->nr, D->be, false);
        bool acc;
        ok = g_init_and_check(&hg, hres[ri].text, &acc);
        if (ok && acc && fresh_ok)
            ok = iter_same(&hg.t, &hf.t, 0, hi + 1, hres[ri].text, "re-initialised");
    }
    mc_end(true, !ok ? "failed" : n_ok == 0 ? "reinit-refused" : n_bad == 0 ? "reinit-accepted" : "reinit-mixed");
}

static void
family_history(bool thorough)
{
    h_thorough = thorough;
    nhd = 0;
    hfamily_enumerate(thorough, hcase_visit);
}

#define NEWBOUND_Q "; FLOAT: f32/f64 register alone at address 0..5 or paired with a 16-bit register (good/bad default) before/behind it x 2 area layouts x area options x 18 default patterns (+-0, subnormals, smallest/largest normals, 1.0, +-inf, four NaNs) x 6 constraint kinds x LE/BE (subnormal defaults: refusal, or acceptance with exact read-back); dirty-descriptor runs also compared with a fresh twin under every iteration window; WIDE: one area of {6,0xffff,0x10000,0x10001,0x10004,0x1ffff,0x20001} words at 10 bases (0, 0x1000, 0xfffd, 0x10000, 0x7ffffffe, ending at 2^31, ending 5/2/1/0 words below 2^32) x neighbour {none, adjacent behind, one word behind, adjacent before, on the last two words, before but listed behind} x {callback-backed, memory-backed} x all register lists of length 0..2 over the addresses around start / offset 2^16 / end x size {1,2,4} x bad-default masks x variants (memory-backed: singles and pairs led by a register at the base; malformed area lists: length 0..1); LONG: {255..258, 65535..65538} 16-bit registers in one or two areas (split around 2^8 / 2^16) x one violated rule {none, order, overlap, default, hole, straddle, beyond} at indices around 2^8 / 2^16 / last; {254..258} areas of 4 words x one violated rule at indices around 2^8 (a description with at least as many registers / areas as the library's header gives as its limit may also be refused as too large); HISTORY: every ordered pair (D1, D2) of 16960 descriptions (8 area layouts x register lists over address 0..7 x size {1,2}: all of length 0..2 with the last default good/bad, all triples with non-descending starts and all ascending 16-bit quadruples memory-backed, all of length 0..2 callback-backed), D1 reduced to its residue in the descriptors, D2 checked as fresh plus iteration over every window compared with a fresh twin"
#define NEWBOUND_T "; FLOAT: f32/f64 register alone at address 0..5 or paired with a 16-bit register (good/bad default) before/behind it x 2 area layouts x area options x 18 default patterns (+-0, subnormals, smallest/largest normals, 1.0, +-inf, four NaNs) x 6 constraint kinds x LE/BE (subnormal defaults: refusal, or acceptance with exact read-back); dirty-descriptor runs also compared with a fresh twin under every iteration window; WIDE: one area of {6,0xffff,0x10000,0x10001,0x10004,0x1ffff,0x20001} words at 10 bases (0, 0x1000, 0xfffd, 0x10000, 0x7ffffffe, ending at 2^31, ending 5/2/1/0 words below 2^32) x neighbour {none, adjacent behind, one word behind, adjacent before, on the last two words, before but listed behind} x {callback-backed, memory-backed} x all register lists of length 0..3 (3: ascending starts) over the addresses around start / offset 2^16 / end x size {1,2,4} x bad-default masks x variants (memory-backed: singles and pairs led by a register at the base; malformed area lists: length 0..1); LONG: {255..258, 65535..65538} 16-bit registers in one or two areas (split around 2^8 / 2^16) x one violated rule {none, order, overlap, default, hole, straddle, beyond} at indices around 2^8 / 2^16 / last; {254..258} areas of 4 words x one violated rule at indices around 2^8 (a description with at least as many registers / areas as the library's header gives as its limit may also be refused as too large); HISTORY: every ordered pair (D1, D2) of 361440 descriptions (12 area layouts x register lists over address 0..7 x size {1,2,4}: all of length 0..3 with the last default good/bad and the ascending 16-bit quadruples memory-backed, all of length 0..2 callback-backed), D1 reduced to its residue in the descriptors, D2 checked as fresh plus iteration over every window compared with a fresh twin"

int
main(int argc, char **argv)
{
    mc_init(argc, argv);
    int64_t ncase = 0;
    char bound[4000];
    if (!mc_thorough()) {
        const struct grid g1 = { 2, 2, 6, 3, { 1, 2, 4 }, 8 };
        enum_all(&g1, &ncase);
        /* curated: three areas, up to five registers */
        const struct grid g2 = { 0, 0, 0, 0, { 0 }, 0 };
        static const uint32_t AB[4][3] = { { 0, 2, 6 }, { 0, 2, 4 }, { 1, 3, 3 }, { 4, 2, 0 } };
        static const uint32_t AS[4][3] = { { 2, 4, 2 }, { 2, 2, 4 }, { 2, 2, 2 }, { 2, 2, 2 } };
        static const uint32_t RA[5][5] = { { 0, 1, 2, 6, 7 }, { 0, 2, 4, 6, 7 }, { 0, 1, 3, 5, 7 }, { 1, 2, 4, 6, 8 }, { 0, 2, 3, 4, 6 } };
        static const uint32_t RS[5][5] = { { 1, 1, 4, 1, 1 }, { 2, 2, 2, 1, 1 }, { 1, 2, 2, 1, 1 }, { 1, 2, 2, 2, 1 }, { 2, 1, 1, 2, 2 } };
        for (int a = 0; a < 4; ++a)
            for (int r = 0; r < 5; ++r)
                for (int nr = 3; nr <= 5; ++nr)
                    run_lists(&g2, AB[a], AS[a], 3, RA[r], RS[r], nr, &ncase);
        snprintf(bound, sizeof bound, "all area lists of length 0..2 over base 0..6 x size {1,2,4} x all register lists of length 0..2 over address 0..8 x size {1,2,4}; 60 curated 3-area / 3..5-register tables; each x defaults {non-zero; all-zero bits with plain and callback-backed areas, lists of <= 2 registers} x bad-default masks x area options (plain, skip-defaults / no write callback per area, all callback-backed, all memory-backed with own read / write / both accessors) x LE/BE type variants x fresh/re-init; after a refusal 15 operations (typed, bit, block of 0/1/2 words, iteration over 16/0/far addresses, sanitise)%s", NEWBOUND_Q);
    } else {
        const struct grid g1 = { 2, 3, 8, 4, { 1, 2, 3, 4 }, 10 };
        enum_all(&g1, &ncase);
        /* all 3-area lists over base {0,1,2,4,5,8} x size {1,2,4} with all register lists of length 0..2 */
        static const uint32_t B3[6] = { 0, 1, 2, 4, 5, 8 };
        const struct grid g3 = { 3, 2, 0, 0, { 0 }, 10 };
        uint32_t ab[3], as[3];
        for (int x = 0; x < 18 * 18 * 18; ++x) {
            int y = x;
            for (int i = 0; i < 3; ++i) {
                const int e = y % 18;
                y /= 18;
                ab[i] = B3[e / 3];
                as[i] = RSZ[e % 3];
            }
            enum_regs(&g3, ab, as, 3, &ncase);
        }
        snprintf(bound, sizeof bound, "all area lists of length 0..2 over base 0..8 x size {1,2,3,4} x all register lists of length 0..3 over address 0..10 x size {1,2,4}; all 3-area lists over base {0,1,2,4,5,8} x size {1,2,4} x all register lists of length 0..2; each x defaults {non-zero; all-zero bits with plain and callback-backed areas, lists of <= 2 registers} x bad-default masks x area options (plain, skip-defaults / no write callback per area, all callback-backed, all memory-backed with own read / write / both accessors) x LE/BE type variants x fresh/re-init; after a refusal 15 operations (typed, bit, block of 0/1/2 words, iteration over 16/0/far addresses, sanitise)%s", NEWBOUND_T);
    }
    family_float();
    family_wide(mc_thorough());
    family_long(mc_thorough());
    family_areas(mc_thorough());
    family_history(mc_thorough());
    mc_finish(true, bound);
    return 0;
}
