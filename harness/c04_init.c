/*
 * C04 -- table initialisation accepts exactly the well-formed tables.
 *
 * Space: ALL area lists of length 0..LA over a (base, size) grid x ALL register
 * lists of length 0..LR over an (address, size) grid x default inside/outside
 * the constraint (per register) x area options (plain, skip-defaults, no write
 * callback, callback-backed) x fresh / previously-initialised table object.
 * Equal bases, one-word overlaps, reversed order, registers straddling an area
 * end or lying in a hole all occur because the lists are enumerated, not
 * hand-picked.  Oracle: the rule list of the statement.
 */
#include "mc.h"
#include "regtab.h"

struct grid {
    int la, lr;          /* maximum list lengths */
    uint32_t abase_max;  /* area bases 0..abase_max */
    int nasz;
    uint32_t asz[4];
    uint32_t raddr_max;  /* register addresses 0..raddr_max */
};

static struct tab tb;

static const char *
initname(RegisterInitCode c)
{
    static const char *n[] = { "SUCCESS", "TABLE_INVALID", "NO_AREAS", "TOO_MANY_AREAS", "AREA_INVALID_ORDER", "AREA_ADDRESS_OVERLAP",
                               "TOO_MANY_ENTRIES", "ENTRY_INVALID_ORDER", "ENTRY_ADDRESS_OVERLAP", "ENTRY_IN_MEMORY_HOLE", "ENTRY_INVALID_DEFAULT" };
    return (unsigned)c < 11 ? n[c] : "?";
}

static int
noop_cb(RegisterTable *t, RegisterHandle h, void *arg)
{
    (void)t; (void)h; (void)arg;
    return 0;
}

struct expect {
    int n;
    RegisterInitCode code[4];
    long index[4]; /* -1: index not demanded */
};

static void
expect_add(struct expect *e, RegisterInitCode c, long idx)
{
    for (int i = 0; i < e->n; ++i)
        if (e->code[i] == c && e->index[i] == idx)
            return;
    e->code[e->n] = c;
    e->index[e->n] = idx;
    e->n++;
}

/* does register r's default get loaded, and is it acceptable? */
static bool
loads_default(const struct tspec *s, int ai)
{
    return !s->a[ai].nowrite && !(s->a[ai].flags & REG_AF_SKIP_DEFAULTS);
}

static int
area_containing_whole(const struct tspec *s, const struct rspec *r)
{
    /* wholly inside one area */
    for (int i = 0; i < s->na; ++i)
        if (r->addr >= s->a[i].base && (uint64_t)r->addr + ref_words(r->type) <= (uint64_t)s->a[i].base + s->a[i].size)
            return i;
    return -1;
}

static void
reference(const struct tspec *s, struct expect *e)
{
    e->n = 0;
    if (s->na == 0) {
        expect_add(e, REG_INIT_NO_AREAS, -1);
        return;
    }
    /* group 1: areas ascending and non-overlapping */
    {
        long ord = -1, ovl = -1;
        for (int i = 1; i < s->na; ++i) {
            if (s->a[i].base < s->a[i - 1].base) {
                if (ord < 0) ord = i;
            } else if ((uint64_t)s->a[i].base < (uint64_t)s->a[i - 1].base + s->a[i - 1].size) {
                if (ovl < 0) ovl = i;
            }
        }
        if (ord >= 0 || ovl >= 0) {
            /* rule-major: order rule first; index-major: lowest index first */
            if (ord >= 0) expect_add(e, REG_INIT_AREA_INVALID_ORDER, ord);
            else expect_add(e, REG_INIT_AREA_ADDRESS_OVERLAP, ovl);
            if (ord >= 0 && (ovl < 0 || ord < ovl)) expect_add(e, REG_INIT_AREA_INVALID_ORDER, ord);
            else expect_add(e, REG_INIT_AREA_ADDRESS_OVERLAP, ovl);
            return;
        }
    }
    /* A third admissible reading for the register rules (the statement says
     * "the first violated rule with the index of the offending register" and
     * does not say whether "first" is by rule or by register): one pass over
     * the registers that checks order, overlap, placement and default per
     * register, reporting the lowest-index register violating any of them. */
    long sp_idx = -1;
    RegisterInitCode sp_code = REG_INIT_SUCCESS;
    for (int i = 0; i < s->nr && sp_idx < 0; ++i) {
        if (i > 0 && s->r[i].addr < s->r[i - 1].addr) {
            sp_idx = i; sp_code = REG_INIT_ENTRY_INVALID_ORDER;
        } else if (i > 0 && (uint64_t)s->r[i].addr < (uint64_t)s->r[i - 1].addr + ref_words(s->r[i - 1].type)) {
            sp_idx = i; sp_code = REG_INIT_ENTRY_ADDRESS_OVERLAP;
        } else {
            const int ai = area_containing_whole(s, &s->r[i]);
            if (ai < 0) {
                sp_idx = i; sp_code = REG_INIT_ENTRY_IN_MEMORY_HOLE;
            } else if (loads_default(s, ai)) {
                const uint64_t bits = ref_bits(s->r[i].type, s->r[i].def);
                bool okd = ref_storable(s->r[i].type, bits);
                if (okd && s->r[i].ckind != K_FAIL)
                    okd = ref_constraint(&s->r[i], s->r[i].def);
                if (!okd) {
                    sp_idx = i; sp_code = REG_INIT_ENTRY_INVALID_DEFAULT;
                }
            }
        }
    }
    /* group 2: registers ascending and non-overlapping */
    {
        long ord = -1, ovl = -1;
        for (int i = 1; i < s->nr; ++i) {
            if (s->r[i].addr < s->r[i - 1].addr) {
                if (ord < 0) ord = i;
            } else if ((uint64_t)s->r[i].addr < (uint64_t)s->r[i - 1].addr + ref_words(s->r[i - 1].type)) {
                if (ovl < 0) ovl = i;
            }
        }
        if (ord >= 0 || ovl >= 0) {
            if (ord >= 0) expect_add(e, REG_INIT_ENTRY_INVALID_ORDER, ord);
            else expect_add(e, REG_INIT_ENTRY_ADDRESS_OVERLAP, ovl);
            if (ord >= 0 && (ovl < 0 || ord < ovl)) expect_add(e, REG_INIT_ENTRY_INVALID_ORDER, ord);
            else expect_add(e, REG_INIT_ENTRY_ADDRESS_OVERLAP, ovl);
            if (sp_idx >= 0)
                expect_add(e, sp_code, sp_idx);
            return;
        }
    }
    /* group 3: every register wholly inside one area; every loaded default acceptable */
    {
        long hole = -1, bad = -1;
        for (int i = 0; i < s->nr; ++i) {
            const int ai = area_containing_whole(s, &s->r[i]);
            if (ai < 0) {
                if (hole < 0) hole = i;
            } else if (loads_default(s, ai)) {
                const uint64_t bits = ref_bits(s->r[i].type, s->r[i].def);
                bool okd = ref_storable(s->r[i].type, bits);
                if (okd && s->r[i].ckind != K_FAIL)
                    okd = ref_constraint(&s->r[i], s->r[i].def);
                if (!okd && bad < 0) bad = i;
            }
        }
        if (hole >= 0 || bad >= 0) {
            if (hole >= 0) expect_add(e, REG_INIT_ENTRY_IN_MEMORY_HOLE, hole);
            else expect_add(e, REG_INIT_ENTRY_INVALID_DEFAULT, bad);
            if (hole >= 0 && (bad < 0 || hole < bad)) expect_add(e, REG_INIT_ENTRY_IN_MEMORY_HOLE, hole);
            else expect_add(e, REG_INIT_ENTRY_INVALID_DEFAULT, bad);
            return;
        }
    }
    expect_add(e, REG_INIT_SUCCESS, -1);
}

static long n_ok, n_bad;

static bool
one_init(const struct tspec *s, bool preinit, const char *odesc, bool dirty, long fault_k)
{
    struct expect e;
    reference(s, &e);
    tab_build(&tb, s);
    if (preinit) {
        /* the table object went through a successful initialisation of an
         * earlier description */
        tb.t.flags |= REG_TF_INITIALISED;
        tb.t.areas = 1;
        tb.t.entries = 0;
    }
    if (dirty)
        /* descriptors built at run time in memory that was not zeroed, or a
         * table initialised before with another register list */
        for (int i = 0; i < s->na; ++i) {
            tb.areas[i].entry.first = 0xa5a5a5a5u;
            tb.areas[i].entry.last = 0x5a5a5a5au;
            tb.areas[i].entry.count = 0x01020304u;
        }
    /* environment deviation: the fault_k-th write callback of a callback-backed
     * area answers IO_ERROR while the defaults are loaded */
    tb.cb_writes = 0;
    tb.cb_fail_write_at = fault_k;
    RegisterInit ri = register_init(&tb.t);
    const bool fault_hit = fault_k >= 0 && tb.cb_writes > fault_k;
    tb.cb_fail_write_at = -1;
    mc_trans(1);
    long idx = -1;
    switch (ri.code) {
    case REG_INIT_AREA_INVALID_ORDER: case REG_INIT_AREA_ADDRESS_OVERLAP: idx = ri.pos.area; break;
    case REG_INIT_ENTRY_INVALID_ORDER: case REG_INIT_ENTRY_ADDRESS_OVERLAP:
    case REG_INIT_ENTRY_IN_MEMORY_HOLE: case REG_INIT_ENTRY_INVALID_DEFAULT: idx = ri.pos.entry; break;
    default: break;
    }
    mc_log("%s preinit=%d -> %s@%ld; reference: %s@%ld%s%s", odesc, preinit, initname(ri.code), idx, initname(e.code[0]), e.index[0],
           e.n > 1 ? " or " : "", e.n > 1 ? initname(e.code[1]) : "");
    bool ok = true;
    bool want_success = e.code[0] == REG_INIT_SUCCESS;
    bool match = false;
    for (int i = 0; i < e.n; ++i)
        if (ri.code == e.code[i] && (e.index[i] < 0 || e.index[i] == idx))
            match = true;
    if (fault_hit) {
        /* a default could not be stored: any refusal is admissible (whatever
         * else is wrong with the table); for a well-formed table success is
         * only admissible if the post-conditions hold all the same */
        if (ri.code != REG_INIT_SUCCESS) {
            match = true;
            want_success = false;
        } else if (want_success)
            match = true;
    }
    if (!match) {
        if (want_success)
            mc_fail("C04/accepts-well-formed", "%s preinit=%d: well-formed table refused with %s@%ld", odesc, preinit, initname(ri.code), idx);
        else if (ri.code == REG_INIT_SUCCESS)
            mc_fail("C04/refuses-malformed", "%s preinit=%d: malformed table accepted; reference says %s@%ld", odesc, preinit, initname(e.code[0]), e.index[0]);
        else
            mc_fail("C04/first-violated-rule", "%s preinit=%d: reported %s@%ld; reference says %s@%ld%s%s@%ld", odesc, preinit, initname(ri.code), idx,
                    initname(e.code[0]), e.index[0], e.n > 1 ? " or " : "", e.n > 1 ? initname(e.code[1]) : "", e.n > 1 ? e.index[1] : -1L);
        ok = false;
    } else if (!want_success) {
        n_bad++;
        /* every operation reports the table as uninitialised */
        RegisterValue v;
        memset(&v, 0, sizeof v);
        v.type = REG_TYPE_UINT16;
        RegisterAtom *buf = mc_exact(2);
        buf[0] = 0;
        RegisterAccessCode c[9];
        c[0] = register_set(&tb.t, 0, v).code;
        c[1] = register_set_unsafe(&tb.t, 0, v).code;
        c[2] = register_get(&tb.t, 0, &v).code;
        c[3] = register_block_read(&tb.t, s->na ? s->a[0].base : 0, 1, buf).code;
        c[4] = register_block_write(&tb.t, s->na ? s->a[0].base : 0, 1, buf).code;
        c[5] = register_foreach_in(&tb.t, 0, 16, noop_cb, NULL).code;
        c[6] = register_sanitise(&tb.t).code;
        v.type = REG_TYPE_UINT16;
        c[7] = register_bit_set(&tb.t, 0, v).code;
        c[8] = register_bit_clear(&tb.t, 0, v).code;
        mc_trans(9);
        free(buf);
        static const char *opn[9] = { "set", "set_unsafe", "get", "block_read", "block_write", "foreach_in", "sanitise", "bit_set", "bit_clear" };
        for (int i = 0; i < 9; ++i)
            if (c[i] != REG_ACCESS_UNINITIALISED) {
                mc_fail("C04/failed-init-leaves-uninitialised", "%s preinit=%d: after %s, register_%s answered code %d instead of UNINITIALISED",
                        odesc, preinit, initname(ri.code), opn[i], c[i]);
                ok = false;
                break;
            }
    } else {
        n_ok++;
        /* defaults, zeroed memory, area entry ranges */
        bool isreg[RT_MAXA][16];
        memset(isreg, 0, sizeof isreg);
        for (int i = 0; i < s->nr && ok; ++i) {
            const int ai = area_containing_whole(s, &s->r[i]);
            if (loads_default(s, ai)) {
                for (uint32_t w = 0; w < ref_words(s->r[i].type); ++w)
                    isreg[ai][s->r[i].addr - s->a[ai].base + w] = true;
                RegisterValue g;
                memset(&g, 0, sizeof g);
                RegisterAccess ga = register_get(&tb.t, (RegisterHandle)i, &g);
                mc_trans(1);
                if (ga.code != REG_ACCESS_SUCCESS || g.type != s->r[i].type
                    || ref_bits(g.type, g.value) != ref_bits(s->r[i].type, s->r[i].def)) {
                    mc_fail("C04/defaults-loaded", "%s: register %d reads %016llx (code %d), default is %016llx", odesc, i,
                            (unsigned long long)ref_bits(s->r[i].type, g.value), ga.code, (unsigned long long)ref_bits(s->r[i].type, s->r[i].def));
                    ok = false;
                }
            }
        }
        for (int ai = 0; ai < s->na && ok; ++ai) {
            if (s->a[ai].cb)
                continue;
            for (uint32_t w = 0; w < s->a[ai].size; ++w)
                if (!isreg[ai][w] && tb.store[ai][w] != 0) {
                    mc_fail("C04/other-words-zero", "%s: area %d word %u is %04x after init", odesc, ai, w, tb.store[ai][w]);
                    ok = false;
                    break;
                }
        }
        for (int ai = 0; ai < s->na && ok; ++ai) {
            int cnt = 0, first = -1;
            for (int i = 0; i < s->nr; ++i)
                if (area_containing_whole(s, &s->r[i]) == ai) {
                    if (first < 0) first = i;
                    cnt++;
                }
            const RegisterArea *a = &tb.areas[ai];
            if ((int)a->entry.count != cnt
                || (cnt > 0 && ((int)a->entry.first != first || (int)a->entry.last != first + cnt - 1))) {
                mc_fail("C04/area-entry-range", "%s: area %d records first=%u last=%u count=%u; %d registers from index %d lie in it",
                        odesc, ai, a->entry.first, a->entry.last, a->entry.count, cnt, first);
                ok = false;
            }
        }
    }
    tab_free(&tb);
    return ok;
}

/* register of size class sc (words 1,2,4); `bad` selects a default the
 * register's own constraint refuses; variant picks the type among same-size types */
static void
mkreg(struct rspec *r, uint32_t addr, uint32_t words, bool bad, int variant)
{
    memset(r, 0, sizeof *r);
    r->addr = addr;
    if (words == 1) {
        r->type = REG_TYPE_UINT16;
        r->ckind = K_RANGE;
        r->lo = vu_int(r->type, 10);
        r->hi = vu_int(r->type, 20);
        r->def = vu_int(r->type, bad ? 21 : 15);
    } else if (words == 2 && (variant & 1)) {
        r->type = REG_TYPE_FLOAT32;
        r->ckind = K_NONE;
        r->def = vu_zero();
        if (bad) {
            const uint32_t nan = 0x7fc00000u;
            memcpy(&r->def.f32, &nan, 4);
        } else
            r->def.f32 = 1.5f;
    } else if (words == 2) {
        r->type = REG_TYPE_SINT32;
        r->ckind = K_MIN;
        r->lo = vu_int(r->type, -5);
        r->def = vu_int(r->type, bad ? -6 : -5);
    } else {
        r->type = (variant & 1) ? REG_TYPE_UINT64 : REG_TYPE_FLOAT64;
        if (r->type == REG_TYPE_UINT64) {
            r->ckind = bad ? K_MAX : K_FAIL; /* always-fail registers still take their default at init */
            r->hi = vu_int(r->type, 0x100000000ll);
            r->def = vu_int(r->type, bad ? 0x100000001ll : 7);
        } else {
            r->ckind = K_CB;
            r->def.f64 = bad ? -1.0 : 2.0;
        }
    }
}

static void
run_lists(const struct grid *g, const uint32_t *ab, const uint32_t *as, int na, const uint32_t *ra, const uint32_t *rsz, int nr, int64_t *ncase)
{
    char desc[240];
    size_t l = (size_t)snprintf(desc, sizeof desc, "areas[");
    for (int i = 0; i < na; ++i)
        l += (size_t)snprintf(desc + l, sizeof desc - l, "%s%u+%u", i ? " " : "", ab[i], as[i]);
    l += (size_t)snprintf(desc + l, sizeof desc - l, "] regs[");
    for (int i = 0; i < nr; ++i)
        l += (size_t)snprintf(desc + l, sizeof desc - l, "%s%u+%u", i ? " " : "", ra[i], rsz[i]);
    snprintf(desc + l, sizeof desc - l, "]");
    (*ncase)++;
    if (!mc_case("%s x bad-default masks x area options x fresh/re-init", desc))
        return;
    n_ok = n_bad = 0;
    bool ok = true;
    const int nmask = 1 << (nr > 3 ? 3 : nr);
    /* area options: 0 plain; 1+2i skip-defaults on area i; 2+2i no write callback on area i; last: all callback-backed */
    const bool reduced = (g->lr >= 3 && nr >= 3); /* enumerated 3-register lists: plain areas, at most one bad default */
    const int nopt = reduced ? 1 : 1 + 2 * na + (na > 0);
    for (int mask = 0; mask < nmask && ok; ++mask)
        for (int opt = 0; opt < nopt && ok; ++opt)
            for (int variant = 0; variant < 2 && ok; ++variant) {
                if (reduced && (mask & (mask - 1)))
                    continue;
                struct tspec s;
                memset(&s, 0, sizeof s);
                s.be = variant;
                s.na = na;
                for (int i = 0; i < na; ++i) {
                    s.a[i] = (struct aspec){ ab[i], as[i], REG_AF_RW, false, false };
                    if (opt == 1 + 2 * i)
                        s.a[i].flags |= REG_AF_SKIP_DEFAULTS;
                    if (opt == 2 + 2 * i) {
                        s.a[i].nowrite = true;
                        s.a[i].flags = REG_AF_READABLE;
                        s.a[i].cb = variant;
                    }
                    if (opt == 1 + 2 * na)
                        s.a[i].cb = true;
                }
                s.nr = nr;
                for (int i = 0; i < nr; ++i)
                    mkreg(&s.r[i], ra[i], rsz[i], (mask >> (i > 2 ? 2 : i)) & 1, variant + i);
                char od[64];
                snprintf(od, sizeof od, "mask=%d opt=%d variant=%d", mask, opt, variant);
                ok = one_init(&s, false, od, false, -1);
                if (ok && opt == 0)
                    ok = one_init(&s, true, od, false, -1);
                /* dirty descriptors and write faults are independent of which
                 * defaults are bad: run them for the all-good mask only */
                if (ok && mask == 0 && (opt == 0 || opt == 1 + 2 * na) && variant == 0)
                    ok = one_init(&s, false, od, true, -1);
                if (ok && mask == 0 && na > 0 && opt == 1 + 2 * na && variant == 0)
                    for (long k = 0; k < nr && ok; ++k)
                        ok = one_init(&s, false, od, false, k);
            }
    mc_end(true, !ok ? "failed" : n_ok == 0 ? "all-refused" : n_bad == 0 ? "all-accepted" : "mixed");
}

static const uint32_t RSZ[3] = { 1, 2, 4 };

/* all register lists of length 0..lr for one area list */
static void
enum_regs(const struct grid *g, const uint32_t *ab, const uint32_t *as, int na, int64_t *ncase)
{
    uint32_t ra[RT_MAXR], rs[RT_MAXR];
    const int per = (int)(g->raddr_max + 1) * 3;
    for (int len = 0; len <= g->lr; ++len) {
        int64_t total = 1;
        for (int i = 0; i < len; ++i)
            total *= per;
        for (int64_t x = 0; x < total; ++x) {
            int64_t y = x;
            for (int i = 0; i < len; ++i) {
                const int e = (int)(y % per);
                y /= per;
                ra[i] = (uint32_t)(e / 3);
                rs[i] = RSZ[e % 3];
            }
            run_lists(g, ab, as, na, ra, rs, len, ncase);
        }
    }
}

static void
enum_all(const struct grid *g, int64_t *ncase)
{
    uint32_t ab[RT_MAXA], as[RT_MAXA];
    const int per = (int)(g->abase_max + 1) * g->nasz;
    for (int len = 0; len <= g->la; ++len) {
        int64_t total = 1;
        for (int i = 0; i < len; ++i)
            total *= per;
        for (int64_t x = 0; x < total; ++x) {
            int64_t y = x;
            for (int i = 0; i < len; ++i) {
                const int e = (int)(y % per);
                y /= per;
                ab[i] = (uint32_t)(e / g->nasz);
                as[i] = g->asz[e % g->nasz];
            }
            enum_regs(g, ab, as, len, ncase);
        }
    }
}

int
main(int argc, char **argv)
{
    mc_init(argc, argv);
    int64_t ncase = 0;
    char bound[400];
    if (!mc_thorough()) {
        const struct grid g1 = { 2, 2, 6, 3, { 1, 2, 4 }, 8 };
        enum_all(&g1, &ncase);
        /* curated: three areas, up to five registers */
        const struct grid g2 = { 0, 0, 0, 0, { 0 }, 0 };
        static const uint32_t AB[4][3] = { { 0, 2, 6 }, { 0, 2, 4 }, { 1, 3, 3 }, { 4, 2, 0 } };
        static const uint32_t AS[4][3] = { { 2, 4, 2 }, { 2, 2, 4 }, { 2, 2, 2 }, { 2, 2, 2 } };
        static const uint32_t RA[5][5] = { { 0, 1, 2, 6, 7 }, { 0, 2, 4, 6, 7 }, { 0, 1, 3, 5, 7 }, { 1, 2, 4, 6, 8 }, { 0, 2, 3, 4, 6 } };
        static const uint32_t RS[5][5] = { { 1, 1, 4, 1, 1 }, { 2, 2, 2, 1, 1 }, { 1, 2, 2, 1, 1 }, { 1, 2, 2, 2, 1 }, { 2, 1, 1, 2, 2 } };
        for (int a = 0; a < 4; ++a)
            for (int r = 0; r < 5; ++r)
                for (int nr = 3; nr <= 5; ++nr)
                    run_lists(&g2, AB[a], AS[a], 3, RA[r], RS[r], nr, &ncase);
        snprintf(bound, sizeof bound, "all area lists of length 0..2 over base 0..6 x size {1,2,4} x all register lists of length 0..2 over address 0..8 x size {1,2,4}; 60 curated 3-area / 3..5-register tables; each x bad-default masks x area options x LE/BE type variants x fresh/re-init");
    } else {
        const struct grid g1 = { 2, 3, 8, 4, { 1, 2, 3, 4 }, 10 };
        enum_all(&g1, &ncase);
        /* all 3-area lists over base {0,1,2,4,5,8} x size {1,2,4} with all register lists of length 0..2 */
        static const uint32_t B3[6] = { 0, 1, 2, 4, 5, 8 };
        const struct grid g3 = { 3, 2, 0, 0, { 0 }, 10 };
        uint32_t ab[3], as[3];
        for (int x = 0; x < 18 * 18 * 18; ++x) {
            int y = x;
            for (int i = 0; i < 3; ++i) {
                const int e = y % 18;
                y /= 18;
                ab[i] = B3[e / 3];
                as[i] = RSZ[e % 3];
            }
            enum_regs(&g3, ab, as, 3, &ncase);
        }
        snprintf(bound, sizeof bound, "all area lists of length 0..2 over base 0..8 x size {1,2,3,4} x all register lists of length 0..3 over address 0..10 x size {1,2,4}; all 3-area lists over base {0,1,2,4,5,8} x size {1,2,4} x all register lists of length 0..2; each x bad-default masks x area options x LE/BE type variants x fresh/re-init");
    }
    mc_finish(true, bound);
    return 0;
}
