/*
 * C19 -- ring buffer: explicit-state search to fixpoint over (implementation
 * state, model queue) pairs.  Six instances of the macro template: the
 * library's own octet_ring (uint8_t) and harness instantiations for uint16_t,
 * uint32_t, float, double and int64_t.  In every reached state the observers size/empty/full and both
 * iterators are run to completion and compared with a bounded deque.
 *
 * The statement speaks about get/put/clear/override, size/empty/full and the
 * iterators -- not about how the object encodes its state.  The implementation
 * part of a state is therefore the object's octet image (object zeroed, then
 * NAME##_init; every word that points into the storage is replaced by its
 * offset in the key and pointed at a fresh exact-size block when the state is
 * restored) plus the storage cells.  No clause looks at head/tail/index
 * values: a slot outside the storage is observed by ASan on the exact-size
 * block.  The harness names no member of the ring object (a ring that moved
 * its storage elsewhere is seen by the pointer-rebasing restore -- the cells of
 * the fresh block no longer follow the queue -- and by ASan's exact blocks).
 *
 * Roots: init alone (the mode init chooses is not assumed: it is *probed* on a
 * fresh zeroed object -- fill, one more put, get -- and the model starts with
 * what the probe saw), init followed by override(off), init followed by
 * override(on), and (capacities <= 3) init of an object that held 0xff octets.
 *
 * Object re-use: from every state of the home capacity the used object is
 * initialised again (NAME##_init on a fresh storage block) with capacity
 * cap-1, cap, cap+1, 1 and the largest capacity of the tier.  The model of the
 * result is an empty ring of that capacity; its mode (the statement is silent:
 * as fresh, or as configured before) is probed on a copy of the re-initialised
 * object.  If the resulting
 * implementation state is identical to the fresh root of that capacity it is
 * not explored again (that root's own search does it); otherwise the search
 * continues from it to the fixpoint.
 *
 * Iterator objects are re-used, too: every iteration is started on an rb_iter
 * with each of these histories: zeroed, 0xff-filled, constructed for /
 * advanced over rings of other capacities, and used up on this ring in the
 * other direction.
 *
 * Large scope: capacities straddling 2^8 and 2^16 (thorough also 2^15, 2^17)
 * are not searched but driven through a structured family of histories
 * (rotate the cursors, fill to each boundary, overfill, iterate, drain,
 * wrap, iterate, drain to empty) with position-dependent element values.
 *
 * Huge scope (thorough only): the library's octet_ring on capacities 2^31+16
 * and 2^32+8, see huge_family().
 */
/* Build variants.  NDEBUG is a per-translation-unit setting: the library
 * objects (octet_ring, rb_iter_done / rb_iter_advance) and the application
 * that instantiates the template for its own element types are built
 * separately -- the repository's default build type keeps assertions, release
 * applications define NDEBUG.  The orchestrator's flags apply to the library
 * sources; C19_APP_DEBUG / C19_APP_NDEBUG give this file (the application) the
 * other setting.  C19_LIGHT: the small-scope search at capacities 1..3 only
 * (the mixed and the all-assertions builds repeat the search, not the large
 * capacities). */
#if defined(C19_APP_DEBUG)
#undef NDEBUG
#elif defined(C19_APP_NDEBUG)
#undef NDEBUG
#define NDEBUG 1
#endif

#include "mc.h"

#include <ufw/octet-ring.h>
#include <ufw/ring-buffer-iter.h>
#include <ufw/ring-buffer.h>

RING_BUFFER_API(ring16, uint16_t)
RING_BUFFER_ITER_API(ring16, uint16_t)
RING_BUFFER(ring16, uint16_t)
RING_BUFFER_ITER(ring16, uint16_t)

RING_BUFFER_API(ring32, uint32_t)
RING_BUFFER_ITER_API(ring32, uint32_t)
RING_BUFFER(ring32, uint32_t)
RING_BUFFER_ITER(ring32, uint32_t)

/* element types that are not unsigned integers of at most 32 bits: a queue of
 * floats or of 64-bit signed values is a queue all the same ("get returns the
 * oldest element"), and the template is the same text for every TYPE.  Their
 * element values are not representable in the types an implementation might
 * carry an element in by mistake (fractions, negative values, values beyond
 * 2^32); elements are compared by bit pattern. */
RING_BUFFER_API(ringf, float)
RING_BUFFER_ITER_API(ringf, float)
RING_BUFFER(ringf, float)
RING_BUFFER_ITER(ringf, float)

RING_BUFFER_API(ringd, double)
RING_BUFFER_ITER_API(ringd, double)
RING_BUFFER(ringd, double)
RING_BUFFER_ITER(ringd, double)

RING_BUFFER_API(ring64s, int64_t)
RING_BUFFER_ITER_API(ring64s, int64_t)
RING_BUFFER(ring64s, int64_t)
RING_BUFFER_ITER(ring64s, int64_t)

#define MAXCAP 10

enum { OP_PUT_A, OP_PUT_B, OP_GET, OP_CLEAR, OP_OVR_ON, OP_OVR_OFF, NOPS };
#define OP_REINIT 100 /* + target capacity */
static const char *OPN[NOPS] = { "put(A)", "put(B)", "get", "clear", "override(on)", "override(off)" };

#define IMPLMAX 96 /* octets of the largest ring object this harness can key on */

struct key {
    uint8_t cap;
    uint16_t ptrmask;      /* which pointer-sized words of impl pointed into the storage */
    uint8_t impl[IMPLMAX]; /* object image; words that pointed into the storage hold the offset into it */
    uint64_t cell[MAXCAP]; /* storage cells, as bit patterns */
    uint8_t qlen, movr; /* model: length, override flag */
    uint64_t q[MAXCAP]; /* model: oldest first, as bit patterns */
};

static const char *
hexof(char *buf, size_t bn, const uint8_t *p, size_t n)
{
    size_t l = 0;
    buf[0] = 0;
    for (size_t i = 0; i < n && l + 3 < bn; ++i)
        l += (size_t)snprintf(buf + l, bn - l, "%02x", p[i]);
    return buf;
}

/* id of the root a state descends from */
static int64_t
root_of(const struct mc_set *s, int64_t id)
{
    while (id >= 0 && s->parent[id] >= 0)
        id = s->parent[id];
    return id;
}

/* ---- pointers into the storage ------------------------------------------------
 * The ring object may keep any number of pointers into its storage (the
 * storage pointer itself, a cached write or read position, an end pointer).
 * A state is restored on a fresh exact-size block, so every aligned
 * pointer-sized word of the object image whose value lies in
 * [storage, storage + cap * sizeof(TYPE)] is taken for such a pointer: in the
 * key it is replaced by its offset into the storage (and flagged in ptrmask),
 * on restore it is pointed at the same offset of the new block.  Keys and
 * printed object images therefore never contain an address. */
#define NPTRWORDS (IMPLMAX / sizeof(uintptr_t))

static uint16_t
image_blank_pointers(uint8_t *impl, size_t objsize, const void *mem, size_t bytes)
{
    uint16_t mask = 0;
    for (size_t w = 0; w < objsize / sizeof(uintptr_t); ++w) {
        uintptr_t v;
        memcpy(&v, impl + w * sizeof v, sizeof v);
        if (v >= (uintptr_t)mem && v <= (uintptr_t)mem + bytes) {
            v -= (uintptr_t)mem;
            memcpy(impl + w * sizeof v, &v, sizeof v);
            mask |= (uint16_t)(1u << w);
        }
    }
    return mask;
}

static void
image_point_at(void *obj, size_t objsize, uint16_t mask, void *mem)
{
    for (size_t w = 0; w < objsize / sizeof(uintptr_t); ++w)
        if (mask & (1u << w)) {
            uintptr_t v;
            memcpy(&v, (uint8_t *)obj + w * sizeof v, sizeof v);
            v += (uintptr_t)mem;
            memcpy((uint8_t *)obj + w * sizeof v, &v, sizeof v);
        }
}

static const char *ROOTN[4] = { "init", "init+override(off)", "init+override(on)", "init(ff-object)" };

/* ---- iterator objects with a history --------------------------------------
 * rb_iter is shared by all ring types; the "other rings" are octet rings. */
static octet_ring auxa, auxb;
static uint8_t auxa_mem[MAXCAP + 4], auxb_mem[MAXCAP + 4];

static void
aux_rings(size_t capa, size_t capb)
{
    memset(&auxa, 0, sizeof auxa);
    memset(&auxb, 0, sizeof auxb);
    octet_ring_init(&auxa, auxa_mem, capa);
    octet_ring_init(&auxb, auxb_mem, capb);
    for (size_t i = 0; i < capa; ++i)
        octet_ring_put(&auxa, (uint8_t)(0x61 + i));
    for (size_t i = 0; i < capb; ++i)
        octet_ring_put(&auxb, (uint8_t)(0x41 + i));
}

enum { IT_ZERO, IT_FF, IT_AUXA_NEW, IT_AUXA_DONE, IT_AUXB_ADV, IT_AUXB_DONE, IT_SAME_OTHER_DIR, NITPRIOR };
static const char *ITN[NITPRIOR] = { "zeroed", "ff-filled", "constructed-on-ring-a", "used-up-on-ring-a(new-to-old)",
                                     "advanced-once-on-ring-b", "used-up-on-ring-b(new-to-old)",
                                     "used-up-on-this-ring-other-direction" };

/* everything but IT_SAME_OTHER_DIR (that one needs the typed constructor) */
static void
iter_history(rb_iter *it, int pk)
{
    size_t guard = 0;
    switch (pk) {
    case IT_ZERO: memset(it, 0, sizeof *it); break;
    case IT_FF: memset(it, 0xff, sizeof *it); break;
    case IT_AUXA_NEW:
        memset(it, 0, sizeof *it);
        octet_ring_iter(it, &auxa, RING_BUFFER_ITER_OLD_TO_NEW);
        break;
    case IT_AUXA_DONE:
        memset(it, 0, sizeof *it);
        for (octet_ring_iter(it, &auxa, RING_BUFFER_ITER_NEW_TO_OLD); !rb_iter_done(it) && guard < 64; ++guard)
            rb_iter_advance(it);
        break;
    case IT_AUXB_ADV:
        memset(it, 0, sizeof *it);
        octet_ring_iter(it, &auxb, RING_BUFFER_ITER_OLD_TO_NEW);
        if (!rb_iter_done(it))
            rb_iter_advance(it);
        break;
    case IT_AUXB_DONE:
        memset(it, 0, sizeof *it);
        for (octet_ring_iter(it, &auxb, RING_BUFFER_ITER_NEW_TO_OLD); !rb_iter_done(it) && guard < 64; ++guard)
            rb_iter_advance(it);
        break;
    default: break;
    }
}

static bool saw_evict, saw_drop;

/* Bound on the state set of one search.  The searches of the unchanged library
 * reach 78, 352, 520, 738, 2178, 6018, 15874, 40450, 100354, 243714 states at
 * capacities 1..10 (two element values: about 24 * cap * 2^cap); a correct ring
 * with more bookkeeping in its object (a cached position, a retained mode)
 * multiplies that by a small factor.  Eight times (from capacity 7 on: four
 * times) the fitted number is the limit; an object whose image never repeats
 * runs into it within seconds. */
static int64_t
state_limit_for(size_t cap)
{
    const int64_t expected = 24 * (int64_t)cap * ((int64_t)1 << cap) + 400;
    return expected * (cap <= 6 ? 8 : 4);
}

#define EXPLORER(NAME, TYPE, VA, VB, BIGVAL)                                                  \
    /* an element as its bit pattern (little-endian host: zero-extended) and back */          \
    static inline uint64_t bits_##NAME(TYPE v)                                                \
    {                                                                                         \
        uint64_t b = 0;                                                                       \
        memcpy(&b, &v, sizeof v);                                                             \
        return b;                                                                             \
    }                                                                                         \
    static inline TYPE val_##NAME(uint64_t b)                                                 \
    {                                                                                         \
        TYPE v;                                                                               \
        memcpy(&v, &b, sizeof v);                                                             \
        return v;                                                                             \
    }                                                                                         \
    /* observers and both iterators against the queue q[0..qlen) (oldest first);          */  \
    /* itmask: which iterator-object histories to use                                     */  \
    static void check_observers_##NAME(const NAME *c, const uint64_t *q, size_t qlen, size_t cap, unsigned itmask) \
    {                                                                                         \
        size_t sz = NAME##_size(c);                                                           \
        bool em = NAME##_empty(c), fu = NAME##_full(c);                                       \
        mc_log("size=%zu empty=%d full=%d", sz, em, fu);                                      \
        if (sz != qlen)                                                                       \
            mc_fail("C19/size", "size()=%zu, queue holds %zu", sz, qlen);                     \
        if (em != (qlen == 0))                                                                \
            mc_fail("C19/empty", "empty()=%d, queue holds %zu", em, qlen);                    \
        if (fu != (qlen == cap))                                                              \
            mc_fail("C19/full", "full()=%d, queue holds %zu of %zu", fu, qlen, cap);          \
        for (int pk = 0; pk < NITPRIOR; ++pk) {                                               \
            if (!(itmask & (1u << pk)))                                                       \
                continue;                                                                     \
            for (int dir = 0; dir < 2; ++dir) {                                               \
                rb_iter it;                                                                   \
                if (pk == IT_SAME_OTHER_DIR) {                                                \
                    size_t guard = 0;                                                         \
                    memset(&it, 0, sizeof it);                                                \
                    for (NAME##_iter(&it, c, dir ? RING_BUFFER_ITER_OLD_TO_NEW : RING_BUFFER_ITER_NEW_TO_OLD); \
                         !rb_iter_done(&it) && guard < 2 * cap + 2; ++guard)                  \
                        rb_iter_advance(&it);                                                 \
                } else {                                                                      \
                    iter_history(&it, pk);                                                    \
                }                                                                             \
                NAME##_iter(&it, c, dir ? RING_BUFFER_ITER_NEW_TO_OLD : RING_BUFFER_ITER_OLD_TO_NEW); \
                size_t steps = 0;                                                             \
                const char *cl = dir ? "C19/iter-new-to-old" : "C19/iter-old-to-new";         \
                for (; !rb_iter_done(&it); rb_iter_advance(&it), ++steps) {                   \
                    if (steps > 2 * cap + 2) {                                                \
                        mc_fail(cl, "iterator object %s: not done after %zu steps", ITN[pk], steps); \
                        break;                                                                \
                    }                                                                         \
                    TYPE v = NAME##_inspect(c, &it);                                          \
                    if (steps < 24)                                                           \
                        mc_log("iter object=%s dir=%d step=%zu value=%llx", ITN[pk], dir, steps, (unsigned long long)bits_##NAME(v)); \
                    if (steps >= qlen) {                                                      \
                        mc_fail(cl, "iterator object %s: yields more than the %zu queued elements", ITN[pk], qlen); \
                        break;                                                                \
                    }                                                                         \
                    uint64_t want = dir ? q[qlen - 1 - steps] : q[steps];                     \
                    if (bits_##NAME(v) != want) {                                             \
                        mc_fail(cl, "iterator object %s: step %zu yields %llx, queue has %llx", ITN[pk], steps, \
                                (unsigned long long)bits_##NAME(v), (unsigned long long)want); \
                        break;                                                                \
                    }                                                                         \
                }                                                                             \
                if (steps < qlen)                                                             \
                    mc_fail(cl, "iterator object %s: finished after %zu steps, queue holds %zu", ITN[pk], steps, qlen); \
            }                                                                                 \
        }                                                                                     \
    }                                                                                         \
    /* implementation part of a key: object image with the storage pointer blanked, cells */  \
    static void snapshot_##NAME(struct key *k, const NAME *c, const TYPE *mem, size_t cap)    \
    {                                                                                         \
        k->cap = (uint8_t)cap;                                                                \
        memset(k->impl, 0, sizeof k->impl);                                                   \
        memcpy(k->impl, c, sizeof *c);                                                        \
        k->ptrmask = image_blank_pointers(k->impl, sizeof *c, mem, cap * sizeof(TYPE));       \
        for (size_t i = 0; i < MAXCAP; ++i)                                                   \
            k->cell[i] = (i < cap) ? bits_##NAME(mem[i]) : 0;                                 \
    }                                                                                         \
    static void restore_##NAME(NAME *c, TYPE *mem, const struct key *k, size_t cap)           \
    {                                                                                         \
        for (size_t i = 0; i < cap; ++i)                                                      \
            mem[i] = val_##NAME(k->cell[i]);                                                  \
        memcpy(c, k->impl, sizeof *c);                                                        \
        image_point_at(c, sizeof *c, k->ptrmask, mem);                                        \
    }                                                                                         \
    /* The mode an (empty) ring object is in, observed on a copy of it over storage of */     \
    /* its own: fill, put one more, get.  0 dropped, 1 evicted, -1 neither.            */     \
    static int probe_object_##NAME(const NAME *c, const TYPE *mem, size_t cap)                \
    {                                                                                         \
        struct key pk;                                                                        \
        memset(&pk, 0, sizeof pk);                                                            \
        snapshot_##NAME(&pk, c, mem, cap);                                                    \
        TYPE *pmem = mc_exact(cap * sizeof(TYPE));                                            \
        NAME pc;                                                                              \
        restore_##NAME(&pc, pmem, &pk, cap);                                                  \
        for (size_t i = 0; i < cap; ++i)                                                      \
            NAME##_put(&pc, (TYPE)(0x21 + i));                                                \
        NAME##_put(&pc, (TYPE)0x7e);                                                          \
        const TYPE v = NAME##_get(&pc);                                                       \
        free(pmem);                                                                           \
        mc_log("mode probe on a copy: %zu puts, one more, get -> %llx", cap, (unsigned long long)bits_##NAME(v)); \
        if (v == (TYPE)0x21)                                                                  \
            return 0;                                                                         \
        if (v == (TYPE)(cap == 1 ? 0x7e : 0x22))                                              \
            return 1;                                                                         \
        return -1;                                                                            \
    }                                                                                         \
    /* The mode a freshly initialised ring is in, observed: fill, put one more, get. */       \
    static int probe_##NAME(size_t cap)                                                       \
    {                                                                                         \
        int mode = 0;                                                                         \
        mc_case(#NAME " cap=%zu probe of the mode after init: init, %zu puts, one more put, get", cap, cap); \
        mc_trans((int64_t)cap + 3);                                                           \
        TYPE *mem = mc_exact(cap * sizeof(TYPE));                                             \
        memset(mem, 0xee, cap * sizeof(TYPE));                                                \
        NAME c;                                                                               \
        memset(&c, 0, sizeof c);                                                              \
        NAME##_init(&c, mem, cap);                                                            \
        for (size_t i = 0; i < cap; ++i)                                                      \
            NAME##_put(&c, (TYPE)(0x21 + i));                                                 \
        NAME##_put(&c, (TYPE)0x7e);                                                           \
        TYPE v = NAME##_get(&c);                                                              \
        mc_log("get -> %llx", (unsigned long long)bits_##NAME(v));                            \
        if (v == (TYPE)0x21)                                                                  \
            mode = 0; /* the extra element was dropped */                                     \
        else if (v == (TYPE)(cap == 1 ? 0x7e : 0x22))                                         \
            mode = 1; /* the oldest element was evicted */                                    \
        else                                                                                  \
            mc_fail("C19/put-full", "after %zu puts and one more, get returned %llx: neither dropped nor evicted", \
                    cap, (unsigned long long)bits_##NAME(v));                                 \
        free(mem);                                                                            \
        mc_end(true, mode ? "init-mode-override" : "init-mode-drop");                         \
        return mode;                                                                          \
    }                                                                                         \
    static void explore_##NAME(size_t cap, size_t maxcap)                                     \
    {                                                                                         \
        if (sizeof(NAME) > IMPLMAX)                                                           \
            mc_broken(#NAME " object of %zu octets does not fit the key (IMPLMAX)", sizeof(NAME)); \
        struct mc_set set;                                                                    \
        mc_set_init(&set);                                                                    \
        aux_rings(cap >= 2 ? cap - 1 : 3, cap + 1);                                           \
        /* re-initialisation targets */                                                       \
        size_t rcap[5];                                                                       \
        int nr = 0;                                                                           \
        {                                                                                     \
            const size_t cand[5] = { cap - 1, cap, cap + 1, 1, maxcap };                      \
            for (int i = 0; i < 5; ++i) {                                                     \
                bool dup = cand[i] < 1 || cand[i] > maxcap;                                   \
                for (int j = 0; j < nr; ++j)                                                  \
                    dup |= rcap[j] == cand[i];                                                \
                if (!dup)                                                                     \
                    rcap[nr++] = cand[i];                                                     \
            }                                                                                 \
        }                                                                                     \
        int initmode[MAXCAP + 1];                                                             \
        struct key fresh[MAXCAP + 1];                                                         \
        memset(fresh, 0, sizeof fresh);                                                       \
        for (int i = 0; i < nr; ++i) {                                                        \
            const size_t B = rcap[i];                                                         \
            initmode[B] = probe_##NAME(B);                                                    \
            TYPE *mem = mc_exact(B * sizeof(TYPE));                                           \
            memset(mem, 0xee, B * sizeof(TYPE));                                              \
            NAME c;                                                                           \
            memset(&c, 0, sizeof c);                                                          \
            NAME##_init(&c, mem, B);                                                          \
            fresh[B].movr = (uint8_t)initmode[B];                                             \
            snapshot_##NAME(&fresh[B], &c, mem, B);                                           \
            free(mem);                                                                        \
        }                                                                                     \
        int rootlabel[4] = { 0, 0, 0, 0 };                                                    \
        for (int root = 0; root < 4; ++root) {                                                \
            if (root == 3 && cap > 3)                                                         \
                continue;                                                                     \
            struct key k0;                                                                    \
            memset(&k0, 0, sizeof k0);                                                        \
            TYPE *mem = mc_exact(cap * sizeof(TYPE));                                         \
            memset(mem, 0xee, cap * sizeof(TYPE));                                            \
            NAME c;                                                                           \
            memset(&c, root == 3 ? 0xff : 0, sizeof c);                                       \
            mc_case(#NAME " cap=%zu root %s", cap, ROOTN[root]);                              \
            mc_trans(1);                                                                      \
            NAME##_init(&c, mem, cap);                                                        \
            k0.movr = (uint8_t)initmode[cap];                                                 \
            if (root == 1 || root == 2) {                                                     \
                NAME##_override_if_full(&c, root == 2);                                       \
                k0.movr = (uint8_t)(root == 2);                                               \
            }                                                                                 \
            check_observers_##NAME(&c, k0.q, 0, cap, ~0u);                                    \
            snapshot_##NAME(&k0, &c, mem, cap);                                               \
            int64_t id = -1;                                                                  \
            if (!mc.cur_failed && mc_set_add(&set, &k0, sizeof k0, -1, -1, &id) && id < 4)    \
                rootlabel[id] = root;                                                         \
            free(mem);                                                                        \
            mc_end(true, root == 0 ? "initial" : root == 3 ? "initial-dirty-object" : "override"); \
        }                                                                                     \
        const int64_t state_limit = state_limit_for(cap);                                   \
        for (int64_t cur = 0; cur < (int64_t)set.n; ++cur) {                                  \
            if ((int64_t)set.n > state_limit) {                                               \
                /* an object that carries history (counters of dropped / evicted elements, a  \
                 * generation number) never repeats its image: no fixpoint.  Stop at once. */ \
                mc_cap(#NAME " capacity %zu: more than %lld distinct (object image, queue) states -- the object's image does not repeat (it carries counters?); search stopped, no fixpoint", \
                       cap, (long long)state_limit);                                          \
                break;                                                                        \
            }                                                                                 \
            struct key k;                                                                     \
            memcpy(&k, mc_set_key(&set, cur), sizeof k);                                      \
            const size_t kcap = k.cap;                                                        \
            char path[200] = "";                                                              \
            char hx[2 * IMPLMAX + 1] = "";                                                    \
            const int64_t rootid = root_of(&set, cur);                                        \
            /* re-initialisation only from states of the home capacity; the lineage           \
             * of the 0xff object (its padding octets differ from a fresh object's, so            \
             * nothing it reaches is "as fresh") stays within capacities <= 3 */              \
            size_t tcap[5];                                                                   \
            int nt = 0;                                                                       \
            for (int i = 0; i < nr && kcap == cap; ++i)                                       \
                if (!(rootid >= 0 && rootid < 4 && rootlabel[rootid] == 3 && rcap[i] > 3))    \
                    tcap[nt++] = rcap[i];                                                     \
            const int nops = NOPS + nt;                                                       \
            for (int opi = 0; opi < nops; ++opi) {                                            \
                const int op = opi < NOPS ? opi : OP_REINIT + (int)tcap[opi - NOPS];          \
                char opn[32];                                                                 \
                if (opi < NOPS)                                                               \
                    snprintf(opn, sizeof opn, "%s", OPN[opi]);                                \
                else                                                                          \
                    snprintf(opn, sizeof opn, "init(fresh storage,%zu)", tcap[opi - NOPS]);   \
                if (mc_would_run() && path[0] == 0)                                           \
                    mc_set_path(&set, cur, path, sizeof path);                                \
                if (mc_would_run())                                                           \
                    hexof(hx, sizeof hx, k.impl, sizeof(NAME));                               \
                mc_case(#NAME " cap=%zu root=%s path=[%s] state=(cap=%zu,object=%s,qlen=%u,override=%u) op=%d:%s", \
                        cap, ROOTN[rootid >= 0 && rootid < 4 ? rootlabel[rootid] : 0], path, kcap, hx, k.qlen, \
                        k.movr, op, opn);                                                     \
                mc_trans(1);                                                                  \
                TYPE *mem = mc_exact(kcap * sizeof(TYPE));                                    \
                NAME c;                                                                       \
                restore_##NAME(&c, mem, &k, kcap);                                            \
                struct key m = k; /* model part advanced below */                             \
                size_t ncap = kcap;                                                           \
                TYPE *nmem = mem;                                                             \
                const char *outcome = "?";                                                    \
                switch (opi < NOPS ? opi : NOPS) {                                            \
                case OP_PUT_A:                                                                \
                case OP_PUT_B: {                                                              \
                    const TYPE v = (op == OP_PUT_A) ? (TYPE)(VA) : (TYPE)(VB);                \
                    NAME##_put(&c, v);                                                        \
                    if (m.qlen == kcap) {                                                     \
                        if (m.movr) {                                                         \
                            memmove(m.q, m.q + 1, (kcap - 1) * sizeof m.q[0]);                \
                            m.q[kcap - 1] = bits_##NAME(v);                                   \
                            outcome = "put-evicts";                                           \
                            saw_evict = true;                                                 \
                        } else {                                                              \
                            outcome = "put-dropped";                                          \
                            saw_drop = true;                                                  \
                        }                                                                     \
                    } else {                                                                  \
                        m.q[m.qlen++] = bits_##NAME(v);                                       \
                        outcome = "put-stored";                                               \
                    }                                                                         \
                    break;                                                                    \
                }                                                                             \
                case OP_GET: {                                                                \
                    TYPE v = NAME##_get(&c);                                                  \
                    mc_log("get -> %llx", (unsigned long long)bits_##NAME(v));                \
                    if (m.qlen == 0) {                                                        \
                        outcome = "get-empty";                                                \
                        if (v != 0)                                                           \
                            mc_fail("C19/get-empty-zero", "get on empty returned %llx", (unsigned long long)bits_##NAME(v)); \
                    } else {                                                                  \
                        outcome = "get-oldest";                                               \
                        if (bits_##NAME(v) != m.q[0])                                         \
                            mc_fail("C19/get-oldest", "get returned %llx, oldest is %llx", (unsigned long long)bits_##NAME(v), (unsigned long long)m.q[0]); \
                        memmove(m.q, m.q + 1, (MAXCAP - 1) * sizeof m.q[0]);                  \
                        m.q[MAXCAP - 1] = 0;                                                  \
                        m.qlen--;                                                             \
                    }                                                                         \
                    break;                                                                    \
                }                                                                             \
                case OP_CLEAR:                                                                \
                    NAME##_clear(&c);                                                         \
                    m.qlen = 0;                                                               \
                    outcome = "clear";                                                        \
                    break;                                                                    \
                case OP_OVR_ON:                                                               \
                case OP_OVR_OFF:                                                              \
                    NAME##_override_if_full(&c, op == OP_OVR_ON);                             \
                    m.movr = (op == OP_OVR_ON);                                               \
                    outcome = "override";                                                     \
                    break;                                                                    \
                default: /* the used object is initialised again, on fresh storage */         \
                    ncap = tcap[opi - NOPS];                                                  \
                    nmem = mc_exact(ncap * sizeof(TYPE));                                     \
                    memset(nmem, 0xee, ncap * sizeof(TYPE));                                  \
                    NAME##_init(&c, nmem, ncap);                                              \
                    m.qlen = 0;                                                               \
                    m.movr = (uint8_t)initmode[ncap]; /* probed on the object itself below */ \
                    outcome = "reinit";                                                       \
                    break;                                                                    \
                }                                                                             \
                for (size_t i = m.qlen; i < MAXCAP; ++i)                                      \
                    m.q[i] = 0; /* canonical model: no stale tail */                          \
                const bool sane = true; /* no clause on the object's private members */       \
                if (sane) {                                                                   \
                    snapshot_##NAME(&m, &c, nmem, ncap);                                      \
                    if (mc.active) {                                                          \
                        char hx2[2 * IMPLMAX + 1];                                            \
                        mc_log("after: cap=%zu object=%s", ncap, hexof(hx2, sizeof hx2, m.impl, sizeof(NAME))); \
                    }                                                                         \
                    check_observers_##NAME(&c, m.q, m.qlen, ncap, ~0u);                       \
                }                                                                             \
                if (opi >= NOPS && sane && !mc.cur_failed) {                                  \
                    /* the statement is silent on the mode of a ring that is initialised      \
                     * again: as a fresh one, or the mode configured before -- either is a    \
                     * correct queue.  Observed on a copy of the object (dropped or evicted), \
                     * the model continues with what was seen. */                             \
                    const int pm = probe_object_##NAME(&c, nmem, ncap);                       \
                    if (pm < 0)                                                               \
                        mc_fail("C19/put-full", "re-initialised ring of %zu: after %zu puts and one more, get returned neither the oldest nor the second element", \
                                ncap, ncap);                                                  \
                    else if (pm != initmode[ncap])                                            \
                        outcome = "reinit-keeps-mode";                                        \
                    if (pm >= 0)                                                              \
                        m.movr = (uint8_t)pm;                                                 \
                }                                                                             \
                if (opi >= NOPS && sane && ncap != cap                                        \
                    && memcmp(&m, &fresh[ncap], sizeof m) == 0) {                             \
                    /* identical to the fresh root of capacity ncap: its future is            \
                     * explored by that capacity's own search */                              \
                    outcome = "reinit-as-fresh";                                              \
                } else if (sane && !mc.cur_failed) {                                          \
                    mc_set_add(&set, &m, sizeof m, cur, op, NULL);                            \
                }                                                                             \
                if (nmem != mem)                                                              \
                    free(nmem);                                                               \
                free(mem);                                                                    \
                mc_end(!(op == OP_CLEAR && k.qlen == 0), outcome);                            \
            }                                                                                 \
        }                                                                                     \
        mc.states += (int64_t)set.n;                                                          \
        mc_set_free(&set);                                                                    \
    }                                                                                         \
    /* One structured history on a ring of `cap` elements (not searched: driven). */          \
    static void big_##NAME(size_t cap, int ovr, size_t rot, size_t fill, int extra, int drain) \
    {                                                                                         \
        const unsigned itmask = (1u << IT_FF) | (1u << IT_AUXA_DONE) | (1u << IT_SAME_OTHER_DIR); \
        const size_t total = rot + fill + (size_t)extra + 8;                                  \
        uint64_t *hist = malloc(total * sizeof *hist); /* model: queue = hist[lo..hi), bit patterns */ \
        size_t lo = 0, hi = 0, seq = 0;                                                       \
        TYPE *mem = mc_exact(cap * sizeof(TYPE));                                             \
        memset(mem, 0xee, cap * sizeof(TYPE));                                                \
        NAME c;                                                                               \
        memset(&c, 0, sizeof c);                                                              \
        NAME##_init(&c, mem, cap);                                                            \
        NAME##_override_if_full(&c, ovr != 0);                                                \
        const char *outcome = "big-stored";                                                   \
        /* rotate the cursors: rot puts, rot gets */                                          \
        for (size_t i = 0; i < rot; ++i, ++seq) {                                             \
            const TYPE v = (TYPE)(BIGVAL(seq));                                               \
            NAME##_put(&c, v);                                                                \
            hist[hi++] = bits_##NAME(v);                                                                   \
        }                                                                                     \
        for (size_t i = 0; i < rot && !mc.cur_failed; ++i) {                                  \
            TYPE v = NAME##_get(&c);                                                          \
            if (bits_##NAME(v) != hist[lo])                                                   \
                mc_fail("C19/get-oldest", "rotation get %zu returned %llx, oldest is %llx", i, (unsigned long long)bits_##NAME(v), (unsigned long long)hist[lo]); \
            lo++;                                                                             \
        }                                                                                     \
        mc_trans((int64_t)(2 * rot));                                                         \
        /* fill to the boundary, then overfill */                                             \
        for (size_t i = 0; i < fill + (size_t)extra; ++i, ++seq) {                            \
            const TYPE v = (TYPE)(BIGVAL(seq));                                               \
            NAME##_put(&c, v);                                                                \
            if (hi - lo == cap) {                                                             \
                if (ovr) {                                                                    \
                    lo++;                                                                     \
                    hist[hi++] = bits_##NAME(v);                                                           \
                    outcome = "big-evicts";                                                   \
                } else {                                                                      \
                    outcome = "big-dropped";                                                  \
                }                                                                             \
            } else {                                                                          \
                hist[hi++] = bits_##NAME(v);                                                               \
            }                                                                                 \
        }                                                                                     \
        mc_trans((int64_t)(fill + (size_t)extra));                                            \
        mc_log("after fill: queue holds %zu", hi - lo);                                       \
        if (!mc.cur_failed)                                                                   \
            check_observers_##NAME(&c, hist + lo, hi - lo, cap, itmask);                      \
        /* drain: 0 none, 1 one element, 2 all but one, 3 everything */                       \
        size_t ng = drain == 0 ? 0 : drain == 1 ? 1 : drain == 2 ? (hi - lo ? hi - lo - 1 : 0) : hi - lo; \
        if (ng > hi - lo)                                                                     \
            ng = hi - lo;                                                                     \
        for (size_t i = 0; i < ng && !mc.cur_failed; ++i) {                                   \
            TYPE v = NAME##_get(&c);                                                          \
            if (bits_##NAME(v) != hist[lo])                                                   \
                mc_fail("C19/get-oldest", "get %zu returned %llx, oldest is %llx", i, (unsigned long long)bits_##NAME(v), (unsigned long long)hist[lo]); \
            lo++;                                                                             \
        }                                                                                     \
        mc_trans((int64_t)ng);                                                                \
        mc_log("after drain: queue holds %zu", hi - lo);                                      \
        if (!mc.cur_failed && ng > 0)                                                         \
            check_observers_##NAME(&c, hist + lo, hi - lo, cap, itmask);                      \
        /* two more puts (wrap the write cursor after a drain) */                             \
        for (int i = 0; i < 2; ++i, ++seq) {                                                  \
            const TYPE v = (TYPE)(BIGVAL(seq));                                               \
            NAME##_put(&c, v);                                                                \
            if (hi - lo == cap) {                                                             \
                if (ovr) {                                                                    \
                    lo++;                                                                     \
                    hist[hi++] = bits_##NAME(v);                                                           \
                }                                                                             \
            } else {                                                                          \
                hist[hi++] = bits_##NAME(v);                                                               \
            }                                                                                 \
        }                                                                                     \
        mc_trans(2);                                                                          \
        mc_log("after two more puts: queue holds %zu", hi - lo);                              \
        if (!mc.cur_failed)                                                                   \
            check_observers_##NAME(&c, hist + lo, hi - lo, cap, itmask);                      \
        if (drain == 3) {                                                                     \
            /* to empty, and one get beyond */                                                \
            while (lo < hi && !mc.cur_failed) {                                               \
                TYPE v = NAME##_get(&c);                                                      \
                if (bits_##NAME(v) != hist[lo])                                               \
                    mc_fail("C19/get-oldest", "final get returned %llx, oldest is %llx", (unsigned long long)bits_##NAME(v), (unsigned long long)hist[lo]); \
                lo++;                                                                         \
            }                                                                                 \
            if (!mc.cur_failed) {                                                             \
                TYPE v = NAME##_get(&c);                                                      \
                if (v != 0)                                                                   \
                    mc_fail("C19/get-empty-zero", "get on empty returned %llx", (unsigned long long)bits_##NAME(v)); \
                check_observers_##NAME(&c, hist + lo, 0, cap, itmask);                        \
            }                                                                                 \
        }                                                                                     \
        free(mem);                                                                            \
        free(hist);                                                                           \
        mc_end(true, outcome);                                                                \
    }

#define BIGVAL8(s) (((s) % 251u) + 1u)
#define BIGVAL16(s) (((s) % 65521u) + 1u)
#define BIGVAL32(s) ((uint32_t)(s) * 2654435761u + 1u)

EXPLORER(octet_ring, uint8_t, 0x11, 0xee, BIGVAL8)
EXPLORER(ring16, uint16_t, 0x1234, 0xabcd, BIGVAL16)
EXPLORER(ring32, uint32_t, 0x12345678u, 0xabcdef01u, BIGVAL32)
#define BIGVALF(s) ((float)(((s) % 65521u) + 1u) * -0.25f)
#define BIGVALD(s) (((double)(s) + 0.5) * 1.0e-3)
#define BIGVAL64S(s) ((int64_t)(((uint64_t)(s) * 0x9e3779b97f4a7c15ull) | 1u))
EXPLORER(ringf, float, 2.5f, -0.125f, BIGVALF)
EXPLORER(ringd, double, -2.5, 1234.0625e-3, BIGVALD)
EXPLORER(ring64s, int64_t, -2, 0x123456789abcdef0ll, BIGVAL64S)
#define NTYPES 6

static int
push_unique(size_t *v, int n, int max, size_t x)
{
    for (int i = 0; i < n; ++i)
        if (v[i] == x)
            return n;
    if (n < max)
        v[n++] = x;
    return n;
}

/* structured histories on capacities next to a type boundary */
static void
big_family(void)
{
    static const size_t bq[] = { 256, 65536 };
    static const size_t bt[] = { 256, 32768, 65536, 131072 };
    static const char *TN[NTYPES] = { "octet_ring", "ring16", "ring32", "ringf(float)", "ringd(double)", "ring64s(int64_t)" };
    static const char *DN[4] = { "none", "one", "all-but-one", "all" };
    const size_t *bds = mc_thorough() ? bt : bq;
    const int nb = mc_thorough() ? 4 : 2;
    aux_rings(3, 7);
    for (int bi = 0; bi < nb; ++bi)
        for (int dc = -1; dc <= 1; ++dc) {
            const size_t cap = bds[bi] + (size_t)dc;
            size_t rots[4], fills[24];
            int nrot = 0, nfill = 0;
            rots[nrot++] = 0;
            nrot = push_unique(rots, nrot, 4, 1);
            nrot = push_unique(rots, nrot, 4, cap - 1);
            const size_t fc[] = { 0, 1, 2, 255, 256, 257, 32767, 32768, 32769, 65535, 65536, 65537, cap - 1, cap };
            for (size_t i = 0; i < sizeof fc / sizeof fc[0]; ++i)
                if (fc[i] <= cap)
                    nfill = push_unique(fills, nfill, 24, fc[i]);
            for (int ty = 0; ty < NTYPES; ++ty)
                for (int ovr = 0; ovr < 2; ++ovr)
                    for (int ri = 0; ri < nrot; ++ri)
                        for (int fi = 0; fi < nfill; ++fi)
                            for (int extra = 0; extra <= (fills[fi] == cap ? 2 : 0); ++extra)
                                for (int drain = 0; drain < 4; ++drain) {
                                    if (!mc_case("big %s cap=%zu override=%d rotate=%zu fill=%zu extra-puts=%d drain=%s",
                                                 TN[ty], cap, ovr, rots[ri], fills[fi], extra, DN[drain]))
                                        continue;
                                    if (ty == 0)
                                        big_octet_ring(cap, ovr, rots[ri], fills[fi], extra, drain);
                                    else if (ty == 1)
                                        big_ring16(cap, ovr, rots[ri], fills[fi], extra, drain);
                                    else if (ty == 2)
                                        big_ring32(cap, ovr, rots[ri], fills[fi], extra, drain);
                                    else if (ty == 3)
                                        big_ringf(cap, ovr, rots[ri], fills[fi], extra, drain);
                                    else if (ty == 4)
                                        big_ringd(cap, ovr, rots[ri], fills[fi], extra, drain);
                                    else
                                        big_ring64s(cap, ovr, rots[ri], fills[fi], extra, drain);
                                }
        }
}

/* ---- huge capacities (thorough tier only) -------------------------------------
 * "Every capacity" includes rings whose slot numbers do not fit 31 / 32 bits: a
 * cursor, an iterator index or a size computed in an int / unsigned int is
 * right for every ring the families above drive.  The library's octet_ring is
 * driven on capacities 2^31+16 and 2^32+8 (real, lazily committed anonymous
 * memory between two inaccessible pages: put writes every slot it passes, and a
 * tiled file would make the value read from a slot depend on where the
 * implementation keeps its elements -- nothing the statement fixes).  The model
 * is the pair of sequence numbers [lo, hi) of the queued elements; the element
 * with sequence number s has the value hugeval(s) (odd, so never the 0 of an
 * empty get and never the even value of a put the model says is dropped).
 * Observers at a checkpoint: size/empty/full and both iterators over their first
 * HUGE_WIN elements (the oldest HUGE_WIN old-to-new, the newest HUGE_WIN
 * new-to-old; to completion when the queue is shorter).  Checkpoints straddle
 * every power of two below the capacity and the capacity itself, counted in
 * puts while filling, in evictions when full (override on) and in gets while
 * draining (override off): wherever the implementation keeps its cursors, each
 * of them has then passed each such slot number by each kind of step.
 *
 * The statement sets no speed: a start-up probe (a 64 KiB ring, 4 Mi puts,
 * put/get pairs and iterator steps) projects the time of each case; a case that
 * would not fit half its watchdog budget is not run (cap `huge-slow`, run marked
 * non-exhaustive) -- never a hang.  The clock decides only whether a case is
 * run; it is not consulted in a replay and never printed.  All cases of one
 * capacity belong to one partition (one process: one mapping at a time). */
#ifndef C19_LIGHT
#include <sys/mman.h>
#include <time.h>

#define HUGE_WIN 64u
#define HUGE_DROPVAL 0x7eu

static inline uint8_t
hugeval(uint64_t s)
{
    return (uint8_t)(((s * 0x9e3779b97f4a7c15ull) >> 56) | 1u);
}

struct huge_mem {
    uint8_t *base;
    size_t span;
    uint8_t *mem;
};

static bool
huge_map(struct huge_mem *h, size_t cap)
{
    const size_t pg = (size_t)sysconf(_SC_PAGESIZE);
    const size_t body = (cap + pg - 1) / pg * pg;
    /* the ring's storage really becomes resident (every slot is written): do
     * not start on a machine that cannot spare it (the other capacity's
     * mapping may be live in a sibling process: ask for twice the body plus
     * 4 GiB of head room) - that is a cap, not something to find out from the
     * kernel's OOM handler */
    const long avail = sysconf(_SC_AVPHYS_PAGES);
    if (avail > 0 && (uint64_t)avail * pg < 2 * (uint64_t)body + (4ull << 30))
        return false;
    h->span = body + 2 * pg;
    h->base = mmap(NULL, h->span, PROT_NONE, MAP_PRIVATE | MAP_ANONYMOUS | MAP_NORESERVE, -1, 0);
    if (h->base == MAP_FAILED)
        return false;
    if (mprotect(h->base + pg, body, PROT_READ | PROT_WRITE) != 0) {
        munmap(h->base, h->span);
        return false;
    }
    h->mem = h->base + pg + body - cap; /* the storage ends at the inaccessible page behind it */
    return true;
}

struct huge_model {
    uint64_t lo, hi; /* sequence numbers of the queued elements: [lo, hi) */
    uint64_t cap;
    int ovr;
    uint64_t nput, nget, nevict, ndrop;
};

static void
huge_put_n(octet_ring *c, struct huge_model *m, uint64_t n)
{
    for (uint64_t i = 0; i < n; ++i) {
        if (m->hi - m->lo == m->cap) {
            if (m->ovr) {
                octet_ring_put(c, hugeval(m->hi));
                m->lo++;
                m->hi++;
                m->nevict++;
            } else {
                octet_ring_put(c, (uint8_t)HUGE_DROPVAL);
                m->ndrop++;
            }
        } else {
            octet_ring_put(c, hugeval(m->hi));
            m->hi++;
        }
    }
    m->nput += n;
    mc_trans((int64_t)n);
}

static void
huge_get_n(octet_ring *c, struct huge_model *m, uint64_t n)
{
    uint64_t i;
    for (i = 0; i < n; ++i) {
        const uint8_t v = octet_ring_get(c);
        if (m->hi == m->lo) {
            if (v != 0) {
                mc_fail("C19/get-empty-zero", "get on empty returned %x", v);
                break;
            }
        } else {
            if (v != hugeval(m->lo)) {
                mc_fail("C19/get-oldest", "get number %llu returned %x, oldest (element number %llu) is %x",
                        (unsigned long long)(m->nget + i), v, (unsigned long long)m->lo, hugeval(m->lo));
                break;
            }
            m->lo++;
        }
    }
    m->nget += i;
    mc_trans((int64_t)i);
}

/* size/empty/full and both iterators over their first HUGE_WIN elements (to completion on a shorter queue) */
static void
huge_observe(const octet_ring *c, const struct huge_model *m)
{
    const uint64_t qlen = m->hi - m->lo;
    const size_t sz = octet_ring_size(c);
    const bool em = octet_ring_empty(c), fu = octet_ring_full(c);
    mc_log("after %llu puts (%llu evicting, %llu dropped), %llu gets: size=%zu empty=%d full=%d", (unsigned long long)m->nput,
           (unsigned long long)m->nevict, (unsigned long long)m->ndrop, (unsigned long long)m->nget, sz, em, fu);
    if (sz != qlen)
        mc_fail("C19/size", "size()=%zu, queue holds %llu", sz, (unsigned long long)qlen);
    if (em != (qlen == 0))
        mc_fail("C19/empty", "empty()=%d, queue holds %llu", em, (unsigned long long)qlen);
    if (fu != (qlen == m->cap))
        mc_fail("C19/full", "full()=%d, queue holds %llu of %llu", fu, (unsigned long long)qlen, (unsigned long long)m->cap);
    const uint64_t win = qlen <= HUGE_WIN ? qlen : HUGE_WIN;
    for (int dir = 0; dir < 2 && !mc.cur_failed; ++dir) {
        const int pk = dir ? IT_FF : IT_AUXA_DONE;
        const char *cl = dir ? "C19/iter-new-to-old" : "C19/iter-old-to-new";
        rb_iter it;
        iter_history(&it, pk);
        octet_ring_iter(&it, c, dir ? RING_BUFFER_ITER_NEW_TO_OLD : RING_BUFFER_ITER_OLD_TO_NEW);
        uint64_t steps = 0;
        for (; !rb_iter_done(&it); rb_iter_advance(&it), ++steps) {
            if (steps == win && win < qlen)
                break; /* end of the window */
            if (steps >= qlen) {
                mc_fail(cl, "iterator object %s: yields more than the %llu queued elements", ITN[pk], (unsigned long long)qlen);
                break;
            }
            const uint8_t v = octet_ring_inspect(c, &it);
            if (steps < 8)
                mc_log("iter dir=%d step=%llu value=%x", dir, (unsigned long long)steps, v);
            const uint8_t want = dir ? hugeval(m->hi - 1 - steps) : hugeval(m->lo + steps);
            if (v != want) {
                mc_fail(cl, "iterator object %s: step %llu yields %x, queue has %x (element number %llu)", ITN[pk],
                        (unsigned long long)steps, v, want, (unsigned long long)(dir ? m->hi - 1 - steps : m->lo + steps));
                break;
            }
        }
        if (steps < win && !mc.cur_failed)
            mc_fail(cl, "iterator object %s: finished after %llu steps, queue holds %llu", ITN[pk], (unsigned long long)steps,
                    (unsigned long long)qlen);
        mc_trans((int64_t)steps);
    }
}

/* sorted, duplicate-free checkpoint counts <= limit: next to 1, the window, every power of two below cap, and cap */
static int
huge_checkpoints(uint64_t *cp, int max, uint64_t cap, uint64_t limit)
{
    uint64_t cand[40];
    int nc = 0, n = 0;
    const uint64_t small[] = { 1, 2, 32, HUGE_WIN, HUGE_WIN + 1 };
    for (size_t i = 0; i < sizeof small / sizeof small[0]; ++i)
        cand[nc++] = small[i];
    for (int sh = 31; sh <= 32; ++sh) {
        const uint64_t b = (uint64_t)1 << sh;
        if (b < cap) {
            cand[nc++] = b - 32;
            cand[nc++] = b - 1;
            cand[nc++] = b;
            cand[nc++] = b + 1;
            cand[nc++] = b + 32;
        }
    }
    cand[nc++] = cap - 32;
    cand[nc++] = cap - 1;
    cand[nc++] = cap;
    cand[nc++] = cap + 1;
    cand[nc++] = cap + 32;
    /* insertion sort, unique */
    for (int i = 0; i < nc; ++i) {
        if (cand[i] > limit)
            continue;
        int j = n;
        bool dup = false;
        for (int k = 0; k < n; ++k)
            dup |= cp[k] == cand[i];
        if (dup || n >= max)
            continue;
        while (j > 0 && cp[j - 1] > cand[i]) {
            cp[j] = cp[j - 1];
            --j;
        }
        cp[j] = cand[i];
        ++n;
    }
    return n;
}

/* nanoseconds per put (evicting: the longest path), per get + put pair, per iterator step (inspect included) */
static double huge_ns[3];

static void
huge_probe(void)
{
    static bool done;
    static uint8_t pm[1u << 16];
    if (done)
        return;
    done = true;
    const uint64_t N = (uint64_t)1 << 22;
    const int64_t trans0 = mc.transitions; /* the probe is not part of any case's work */
    double best[3] = { 1e18, 1e18, 1e18 };
    unsigned sink = 0;
    for (int round = 0; round < 3; ++round) {
        octet_ring c;
        memset(&c, 0, sizeof c);
        octet_ring_init(&c, pm, sizeof pm);
        octet_ring_override_if_full(&c, true);
        struct huge_model m = { 0, 0, sizeof pm, 1, 0, 0, 0, 0 };
        for (int k = 0; k < 3; ++k) {
            struct timespec t0, t1;
            clock_gettime(CLOCK_MONOTONIC, &t0);
            if (k == 0) {
                huge_put_n(&c, &m, N);
            } else if (k == 1) {
                for (uint64_t i = 0; i < N; ++i) {
                    sink += octet_ring_get(&c);
                    octet_ring_put(&c, hugeval(i));
                }
            } else {
                uint64_t steps = 0;
                while (steps < N) {
                    rb_iter it;
                    memset(&it, 0, sizeof it);
                    for (octet_ring_iter(&it, &c, RING_BUFFER_ITER_NEW_TO_OLD); !rb_iter_done(&it) && steps < N;
                         rb_iter_advance(&it), ++steps)
                        sink += (unsigned)(octet_ring_inspect(&c, &it) == hugeval(steps));
                    if (octet_ring_size(&c) == 0)
                        break; /* nothing to iterate over: the projection below stays low, the budget decides */
                }
            }
            clock_gettime(CLOCK_MONOTONIC, &t1);
            const double dt = 1e9 * (double)(t1.tv_sec - t0.tv_sec) + (double)(t1.tv_nsec - t0.tv_nsec);
            if (dt / (double)N < best[k])
                best[k] = dt / (double)N;
        }
    }
    if (sink == 0xffffffffu)
        best[0] += 1e-9; /* keeps the loops */
    for (int k = 0; k < 3; ++k)
        huge_ns[k] = best[k];
    mc.transitions = trans0;
}

enum { HUGE_FILL_DRAIN, HUGE_FILL_EVICT, NHUGEKINDS };

static void
huge_family(void)
{
    static const char *KN[NHUGEKINDS] = {
        "fill(checkpoints),overfill,override(on)+put-2+override(off)+put-1,drain(checkpoints;refill-across-the-wrap-at-32-left),get-on-empty",
        "fill(checkpoints),evict-past-every-boundary-and-once-around(checkpoints),get-64,put-2,clear,put-65",
    };
    /* partition = the shard of the process that drives this capacity: 14 and 15 carry the
     * lightest searches (capacity 8 and below); rotations: 0 and 1 on the smaller ring, 0 on the larger */
    static const struct { uint64_t cap; const char *name; int partition; uint64_t maxrot; } CAPS[2] = {
        { ((uint64_t)1 << 31) + 16, "2^31+16", 14, 1 },
        { ((uint64_t)1 << 32) + 8, "2^32+8", 15, 0 },
    };
    bool said_map = false, said_slow = false;
    aux_rings(3, 7);
    for (int ci = 0; ci < 2; ++ci) {
        const uint64_t cap = CAPS[ci].cap;
        if (!mc_partition(CAPS[ci].partition, 200 + ci))
            continue;
        for (int kind = 0; kind < NHUGEKINDS; ++kind)
            for (uint64_t rot = 0; rot <= CAPS[ci].maxrot; ++rot) {
                const int ovr = kind == HUGE_FILL_EVICT;
                if (!mc_case("huge octet_ring cap=%llu (%s; lazily committed anonymous memory) override=%d rotate=%llu history=%s",
                             (unsigned long long)cap, CAPS[ci].name, ovr, (unsigned long long)rot, KN[kind]))
                    continue;
                /* work of the case in operations, its watchdog budget (40 ns per operation
                 * and a minute; the unchanged library needs about 9), the projection from the probe */
                const double nputs = (double)cap * (kind == HUGE_FILL_EVICT ? 2.0 : 1.0) + 200.0;
                const double ngets = kind == HUGE_FILL_DRAIN ? (double)cap : 100.0;
                const double niter = 1.0e4;
                const double budget = 60.0 + 40.0e-9 * (nputs + ngets + niter);
                mc_budget((int)budget);
                if (mc.only < 0) {
                    huge_probe();
                    const double proj = 1e-9 * (nputs * huge_ns[0] + ngets * huge_ns[1] + niter * huge_ns[2]) + 2.0e-9 * (double)cap;
                    if (proj > 0.5 * budget) {
                        if (!said_slow)
                            mc_cap("huge-slow: at the measured throughput a history on 2^31 / 2^32 slots does not fit half its watchdog budget: not run");
                        said_slow = true;
                        mc_end(false, "huge-slow");
                        continue;
                    }
                }
                struct huge_mem hm;
                if (!huge_map(&hm, (size_t)cap)) {
                    if (!said_map)
                        mc_cap("huge-unmapped: no address range or not enough free memory for a ring of 2^31 / 2^32 octets: rings of that capacity not driven");
                    said_map = true;
                    mc_end(false, "huge-unmapped");
                    continue;
                }
                const char *outcome = "huge-stored";
                octet_ring c;
                memset(&c, 0, sizeof c);
                octet_ring_init(&c, hm.mem, (size_t)cap);
                octet_ring_override_if_full(&c, ovr != 0);
                struct huge_model m = { 0, 0, cap, ovr, 0, 0, 0, 0 };
                uint64_t cp[40];
                huge_observe(&c, &m);
                /* rotate the cursors */
                huge_put_n(&c, &m, rot);
                if (!mc.cur_failed)
                    huge_get_n(&c, &m, rot);
                /* fill */
                const int nfill = huge_checkpoints(cp, 40, cap, cap);
                for (int i = 0; i < nfill && !mc.cur_failed; ++i) {
                    huge_put_n(&c, &m, cp[i] - (m.hi - m.lo));
                    huge_observe(&c, &m);
                }
                if (kind == HUGE_FILL_DRAIN && !mc.cur_failed) {
                    /* two puts into the full ring: dropped */
                    for (int i = 0; i < 2 && !mc.cur_failed; ++i) {
                        huge_put_n(&c, &m, 1);
                        huge_observe(&c, &m);
                    }
                    outcome = "huge-dropped";
                    /* a change of mode on the full ring: two puts evict, back, one more is dropped */
                    if (!mc.cur_failed) {
                        octet_ring_override_if_full(&c, true);
                        m.ovr = 1;
                        huge_put_n(&c, &m, 2);
                        huge_observe(&c, &m);
                    }
                    if (!mc.cur_failed) {
                        octet_ring_override_if_full(&c, false);
                        m.ovr = 0;
                        huge_put_n(&c, &m, 1);
                        huge_observe(&c, &m);
                    }
                    uint64_t drained = 0;
                    for (int i = 0; i < nfill && !mc.cur_failed; ++i) {
                        huge_get_n(&c, &m, cp[i] - drained);
                        drained = cp[i];
                        if (mc.cur_failed)
                            break;
                        huge_observe(&c, &m);
                        if (cp[i] == cap - 32) {
                            /* 32 left at the end of the fill: 32 more puts, the queue lies across the wrap of the write cursor */
                            huge_put_n(&c, &m, 32);
                            huge_observe(&c, &m);
                            if (!mc.cur_failed)
                                huge_get_n(&c, &m, 32);
                            if (!mc.cur_failed)
                                huge_observe(&c, &m);
                        }
                    }
                    /* (the 32 refilled elements took the place of the last 32 of the fill: the drain ends on an empty ring) */
                    if (!mc.cur_failed)
                        huge_get_n(&c, &m, m.hi - m.lo);
                    if (!mc.cur_failed)
                        huge_get_n(&c, &m, 1); /* on empty */
                    if (!mc.cur_failed)
                        huge_observe(&c, &m);
                } else if (kind == HUGE_FILL_EVICT && !mc.cur_failed) {
                    outcome = "huge-evicts";
                    const int nev = huge_checkpoints(cp, 40, cap, cap + 32);
                    for (int i = 0; i < nev && !mc.cur_failed; ++i) {
                        huge_put_n(&c, &m, cp[i] - m.nevict);
                        huge_observe(&c, &m);
                    }
                    if (!mc.cur_failed)
                        huge_get_n(&c, &m, 64);
                    if (!mc.cur_failed)
                        huge_observe(&c, &m);
                    if (!mc.cur_failed) {
                        huge_put_n(&c, &m, 2);
                        huge_observe(&c, &m);
                    }
                    /* clear with the cursors far into the ring, then a short queue from there */
                    if (!mc.cur_failed) {
                        octet_ring_clear(&c);
                        m.lo = m.hi;
                        mc_trans(1);
                        huge_observe(&c, &m);
                    }
                    if (!mc.cur_failed) {
                        huge_put_n(&c, &m, HUGE_WIN + 1);
                        huge_observe(&c, &m);
                    }
                }
                munmap(hm.base, hm.span);
                mc_end(true, outcome);
            }
        /* vacuity: the process that drove this capacity saw both modes' histories, or said why not */
        if (mc.only < 0 && mc.skip == 0 && mc.violations == 0 && !said_slow && !said_map) {
            int64_t nd = 0, ne = 0;
            for (int k = 0; k < mc.noutcomes; ++k) {
                if (!strcmp(mc.outcomes[k], "huge-dropped"))
                    nd = mc.outcome_count[k];
                if (!strcmp(mc.outcomes[k], "huge-evicts"))
                    ne = mc.outcome_count[k];
            }
            if (nd < 1 || ne < 1)
                mc_broken("huge family, capacity %s: %lld dropping and %lld evicting histories were driven", CAPS[ci].name,
                          (long long)nd, (long long)ne);
        }
    }
}
#endif

/* Mixed builds (library objects and application with different NDEBUG
 * settings): do the two sides agree on the layout of the public object types
 * that cross the boundary?  The library side tells through harness/c19_libside.c,
 * which is compiled with the library's flags.  The statement does not promise a
 * layout that is independent of NDEBUG (a debug-only member in rb_iter or in the
 * ring object is a legitimate design; such a library is built with its
 * application's setting), so on a mismatch the mixed search is not run: two
 * probe cases record what was seen, the run is marked non-exhaustive. */
#if defined(C19_APP_DEBUG) || defined(C19_APP_NDEBUG)
#define C19_MIXED 1
size_t c19_lib_sizeof_rb_iter(void);
size_t c19_lib_alignof_rb_iter(void);
size_t c19_lib_sizeof_octet_ring(void);
size_t c19_lib_alignof_octet_ring(void);
int c19_lib_ndebug(void);

static bool
layout_probe(void)
{
    const bool it_same = c19_lib_sizeof_rb_iter() == sizeof(rb_iter) && c19_lib_alignof_rb_iter() == _Alignof(rb_iter);
    const bool rg_same = c19_lib_sizeof_octet_ring() == sizeof(octet_ring)
                         && c19_lib_alignof_octet_ring() == _Alignof(octet_ring);
#ifdef NDEBUG
    const int app_ndebug = 1;
#else
    const int app_ndebug = 0;
#endif
    MC_ANCHOR(c19_lib_ndebug() != app_ndebug, "the mixed build is not mixed: library and application have the same NDEBUG setting");
    mc_partition(-1, 0);
    if (mc_case("layout probe: sizeof/alignof(rb_iter) as seen by the library objects vs by the application")) {
        mc_log("library: %zu/%zu  application: %zu/%zu", c19_lib_sizeof_rb_iter(), c19_lib_alignof_rb_iter(), sizeof(rb_iter),
               (size_t) _Alignof(rb_iter));
        mc_end(true, it_same ? "rb_iter-layout-agrees" : "rb_iter-layout-differs");
    }
    if (mc_case("layout probe: sizeof/alignof(octet_ring) as seen by the library objects vs by the application")) {
        mc_log("library: %zu/%zu  application: %zu/%zu", c19_lib_sizeof_octet_ring(), c19_lib_alignof_octet_ring(),
               sizeof(octet_ring), (size_t) _Alignof(octet_ring));
        mc_end(true, rg_same ? "ring-object-layout-agrees" : "ring-object-layout-differs");
    }
    if (!it_same || !rg_same)
        mc_cap("layout-ndebug: the layout of %s%s%s depends on NDEBUG (library: %s assertions, application: %s): the mixed build is not a supported configuration of this library, search not run",
               it_same ? "" : "rb_iter", (!it_same && !rg_same) ? " and " : "", rg_same ? "" : "the ring object",
               c19_lib_ndebug() ? "without" : "with", app_ndebug ? "without" : "with");
    return it_same && rg_same;
}
#endif

int
main(int argc, char **argv)
{
    mc_init(argc, argv);
#ifdef C19_LIGHT
    size_t maxcap = 3;
#else
    size_t maxcap = mc_thorough() ? 10 : 5;
#endif
    bool gated = false;
#ifdef C19_MIXED
    if (!layout_probe()) {
        gated = true;
        maxcap = 0;
    }
#endif
    for (size_t cap = 1; cap <= maxcap; ++cap) {
        /* one partition per (capacity, element type): independent searches */
        if (mc_partition((int)(NTYPES * (maxcap - cap) + 0), (int64_t)(NTYPES * cap + 0)))
            explore_octet_ring(cap, maxcap);
        if (mc_partition((int)(NTYPES * (maxcap - cap) + 1), (int64_t)(NTYPES * cap + 1)))
            explore_ring16(cap, maxcap);
        if (mc_partition((int)(NTYPES * (maxcap - cap) + 2), (int64_t)(NTYPES * cap + 2)))
            explore_ring32(cap, maxcap);
        if (mc_partition((int)(NTYPES * (maxcap - cap) + 3), (int64_t)(NTYPES * cap + 3)))
            explore_ringf(cap, maxcap);
        if (mc_partition((int)(NTYPES * (maxcap - cap) + 4), (int64_t)(NTYPES * cap + 4)))
            explore_ringd(cap, maxcap);
        if (mc_partition((int)(NTYPES * (maxcap - cap) + 5), (int64_t)(NTYPES * cap + 5)))
            explore_ring64s(cap, maxcap);
    }
    /* the structured large-capacity histories are an odometer: sharded case by case */
    mc_partition(-1, 199);
#ifndef C19_LIGHT
    big_family();
    if (mc_thorough())
        huge_family();
#endif
#ifdef C19_MIXED
    /* the orchestrator cannot require the search's outcome classes of a harness
     * that may legitimately not run: a process that did search guards itself */
    if (!gated && mc.only < 0 && mc.violations == 0 && mc.evaluations > 2 && mc.noutcomes < 6)
        mc_broken("mixed build: the search of this shard saw only %d outcome classes", mc.noutcomes);
#endif
    (void)gated;
    /* vacuity is guarded by the orchestrator's required outcome classes
     * (put-evicts, put-dropped, get-empty, get-oldest, clear, ...): the
     * searches are spread over the shards, so no single process sees all */
    char bound[1800];
#ifdef C19_LIGHT
    snprintf(bound, sizeof bound,
             "build variant (library %s assertions, application %s): capacities 1..%zu x element types u8/u16/u32/float/double/int64 x two element values, all operations + re-initialisation, "
             "roots init / init+override(off) / init+override(on) / init of a 0xff object, observers and both iterators on 7 iterator-object histories in every state, to fixpoint",
#if defined(C19_APP_DEBUG)
             "without", "with",
#elif defined(C19_APP_NDEBUG)
             "with", "without",
#elif defined(NDEBUG)
             "without", "without",
#else
             "with", "with",
#endif
             maxcap);
    if (gated)
        snprintf(bound, sizeof bound, "build variant not run: library objects and application disagree on the layout of rb_iter / the ring object (layout depends on NDEBUG); two probe cases only");
    if (0)
#endif
    snprintf(bound, sizeof bound,
             "capacities 1..%zu x element types u8/u16/u32/float/double/int64 x two element values (fractions, negative and > 2^32 values for the last three), all operations + re-initialisation of the used object "
             "to capacities {cap-1,cap,cap+1,1,%zu} from every state of the home capacity, roots init / init+override(off) / init+override(on) / "
             "init of a 0xff object (cap<=3), observers and both iterators on 7 iterator-object histories in every state, to fixpoint; "
             "capacities 2^{%s}-1..+1 x u8/u16/u32/float/double/int64 x override off/on x rotation {0,1,cap-1} x fill levels {0,1,2,2^8-1..2^8+1,2^15-1..2^15+1,2^16-1..2^16+1,cap-1,cap} "
             "x overfill 0..2 x drain {none,one,all-but-one,all}: structured histories with observers and both iterators (3 iterator-object histories) after fill, drain and wrap%s",
             maxcap, maxcap, mc_thorough() ? "8,15,16,17" : "8,16",
             mc_thorough() ? "; octet_ring on capacities 2^31+16 (rotation 0,1) and 2^32+8 (rotation 0) of lazily committed memory x {override off: fill, 2 dropped puts, override on + 2 evicting puts + override off + 1 dropped put, drain to empty (32 puts across the wrap when 32 are left), get on empty; "
                             "override on: fill, capacity+32 evicting puts, 64 gets, 2 puts, clear, 65 puts}, every get compared, size/empty/full and both iterators over their first 64 elements at the checkpoints "
                             "{1,2,32,64,65, 2^31-32,2^31-1,2^31,2^31+1,2^31+32, 2^32-32..2^32+32 likewise, cap-32,cap-1,cap,cap+1,cap+32} counted in puts (fill), gets (drain) and evictions"
                           : "");
    mc_finish(true, bound);
    return 0;
}
