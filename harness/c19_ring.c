/*
 * C19 -- ring buffer: explicit-state search to fixpoint over (implementation
 * state, model queue) pairs.  Three instances of the macro template: the
 * library's own octet_ring (uint8_t) and harness instantiations for uint16_t
 * and uint32_t.  In every reached state the observers size/empty/full and both
 * iterators are run to completion and compared with a bounded deque.
 *
 * The statement speaks about get/put/clear/override, size/empty/full and the
 * iterators -- not about how the object encodes its state.  The implementation
 * part of a state is therefore the object's octet image (object zeroed, then
 * NAME##_init; the storage pointer is blanked in the key and re-pointed at a
 * fresh exact-size block when the state is restored) plus the storage cells.
 * No clause looks at head/tail/index values: a slot outside the storage is
 * observed by ASan on the exact-size block.  The only member the harness names
 * is `data` (it has to, to relocate the storage).
 *
 * Roots: init followed by override(off), and init followed by override(on), so
 * that the model's flag is known without assuming what init chooses.
 */
#include "mc.h"

#include <ufw/octet-ring.h>
#include <ufw/ring-buffer-iter.h>
#include <ufw/ring-buffer.h>

RING_BUFFER_API(ring16, uint16_t)
RING_BUFFER_ITER_API(ring16, uint16_t)
RING_BUFFER(ring16, uint16_t)
RING_BUFFER_ITER(ring16, uint16_t)

RING_BUFFER_API(ring32, uint32_t)
RING_BUFFER_ITER_API(ring32, uint32_t)
RING_BUFFER(ring32, uint32_t)
RING_BUFFER_ITER(ring32, uint32_t)

#define MAXCAP 10

enum { OP_PUT_A, OP_PUT_B, OP_GET, OP_CLEAR, OP_OVR_ON, OP_OVR_OFF, NOPS };
static const char *OPN[NOPS] = { "put(A)", "put(B)", "get", "clear", "override(on)", "override(off)" };

#define IMPLMAX 96 /* octets of the largest ring object this harness can key on */

struct key {
    uint8_t cap;
    uint8_t impl[IMPLMAX]; /* object image, storage pointer blanked */
    uint32_t cell[MAXCAP];
    uint8_t qlen, movr; /* model: length, override flag */
    uint32_t q[MAXCAP]; /* model: oldest first */
};

static bool saw_evict, saw_drop;

static const char *
hexof(char *buf, size_t bn, const uint8_t *p, size_t n)
{
    size_t l = 0;
    buf[0] = 0;
    for (size_t i = 0; i < n && l + 3 < bn; ++i)
        l += (size_t)snprintf(buf + l, bn - l, "%02x", p[i]);
    return buf;
}

/* id of the root a state descends from (0: override off, 1: override on) */
static int64_t
root_of(const struct mc_set *s, int64_t id)
{
    while (id >= 0 && s->parent[id] >= 0)
        id = s->parent[id];
    return id;
}

#define EXPLORER(NAME, TYPE, VA, VB)                                                          \
    static void check_observers_##NAME(const NAME *c, const struct key *m, size_t cap)        \
    {                                                                                         \
        size_t sz = NAME##_size(c);                                                           \
        bool em = NAME##_empty(c), fu = NAME##_full(c);                                       \
        mc_log("size=%zu empty=%d full=%d", sz, em, fu);                                      \
        if (sz != m->qlen)                                                                    \
            mc_fail("C19/size", "size()=%zu, queue holds %u", sz, m->qlen);                   \
        if (em != (m->qlen == 0))                                                             \
            mc_fail("C19/empty", "empty()=%d, queue holds %u", em, m->qlen);                  \
        if (fu != (m->qlen == cap))                                                           \
            mc_fail("C19/full", "full()=%d, queue holds %u of %zu", fu, m->qlen, cap);        \
        for (int dir = 0; dir < 2; ++dir) {                                                   \
            rb_iter it;                                                                       \
            NAME##_iter(&it, c, dir ? RING_BUFFER_ITER_NEW_TO_OLD : RING_BUFFER_ITER_OLD_TO_NEW); \
            size_t steps = 0;                                                                 \
            const char *cl = dir ? "C19/iter-new-to-old" : "C19/iter-old-to-new";             \
            for (; !rb_iter_done(&it); rb_iter_advance(&it), ++steps) {                       \
                if (steps > 2 * cap + 2) {                                                    \
                    mc_fail(cl, "iterator not done after %zu steps", steps);                  \
                    break;                                                                    \
                }                                                                             \
                TYPE v = NAME##_inspect(c, &it);                                              \
                mc_log("iter dir=%d step=%zu index=%zu value=%lx", dir, steps, it.index, (unsigned long)v); \
                if (steps >= m->qlen) {                                                       \
                    mc_fail(cl, "iterator yields more than the %u queued elements", m->qlen); \
                    break;                                                                    \
                }                                                                             \
                uint32_t want = dir ? m->q[m->qlen - 1 - steps] : m->q[steps];                \
                if ((uint32_t)v != want) {                                                    \
                    mc_fail(cl, "step %zu yields %lx, queue has %lx", steps, (unsigned long)v, (unsigned long)want); \
                    break;                                                                    \
                }                                                                             \
            }                                                                                 \
            if (steps < m->qlen)                                                              \
                mc_fail(cl, "iterator finished after %zu steps, queue holds %u", steps, m->qlen); \
        }                                                                                     \
    }                                                                                         \
    /* implementation part of a key: object image with the storage pointer blanked, cells */  \
    static void snapshot_##NAME(struct key *k, const NAME *c, const TYPE *mem, size_t cap)    \
    {                                                                                         \
        memset(k->impl, 0, sizeof k->impl);                                                   \
        memcpy(k->impl, c, sizeof *c);                                                        \
        memset(k->impl + offsetof(NAME, data), 0, sizeof c->data);                            \
        for (size_t i = 0; i < MAXCAP; ++i)                                                   \
            k->cell[i] = (i < cap) ? mem[i] : 0;                                              \
    }                                                                                         \
    static void restore_##NAME(NAME *c, TYPE *mem, const struct key *k, size_t cap)           \
    {                                                                                         \
        for (size_t i = 0; i < cap; ++i)                                                      \
            mem[i] = (TYPE)k->cell[i];                                                        \
        memcpy(c, k->impl, sizeof *c);                                                        \
        c->data = mem;                                                                        \
    }                                                                                         \
    static void explore_##NAME(size_t cap)                                                    \
    {                                                                                         \
        if (sizeof(NAME) > IMPLMAX)                                                           \
            mc_broken(#NAME " object of %zu octets does not fit the key (IMPLMAX)", sizeof(NAME)); \
        struct mc_set set;                                                                    \
        mc_set_init(&set);                                                                    \
        for (int root = 0; root < 2; ++root) {                                                \
            struct key k0;                                                                    \
            memset(&k0, 0, sizeof k0);                                                        \
            k0.cap = (uint8_t)cap;                                                            \
            TYPE *mem = mc_exact(cap * sizeof(TYPE));                                         \
            memset(mem, 0xee, cap * sizeof(TYPE));                                            \
            NAME c;                                                                           \
            memset(&c, 0, sizeof c);                                                          \
            NAME##_init(&c, mem, cap);                                                        \
            if (root == 0) {                                                                  \
                mc_case(#NAME " cap=%zu initial state", cap);                                 \
                check_observers_##NAME(&c, &k0, cap);                                         \
                mc_end(true, "initial");                                                      \
            }                                                                                 \
            mc_case(#NAME " cap=%zu init then override(%s)", cap, root ? "on" : "off");       \
            mc_trans(1);                                                                      \
            NAME##_override_if_full(&c, root == 1);                                           \
            k0.movr = (uint8_t)root;                                                          \
            if (c.data != mem)                                                                \
                mc_fail("C19/geometry-unchanged", "storage pointer changed");                 \
            else                                                                              \
                check_observers_##NAME(&c, &k0, cap);                                         \
            snapshot_##NAME(&k0, &c, mem, cap);                                               \
            /* both roots are always enqueued (ids 0 and 1; the keys differ at least          \
             * in the model's flag) */                                                        \
            mc_set_add(&set, &k0, sizeof k0, -1, -1, NULL);                                   \
            free(mem);                                                                        \
            mc_end(true, "override");                                                         \
        }                                                                                     \
        for (int64_t cur = 0; cur < (int64_t)set.n; ++cur) {                                  \
            struct key k;                                                                     \
            memcpy(&k, mc_set_key(&set, cur), sizeof k);                                      \
            char path[200] = "";                                                              \
            char hx[2 * IMPLMAX + 1] = "";                                                    \
            const int64_t rootid = root_of(&set, cur);                                        \
            for (int op = 0; op < NOPS; ++op) {                                               \
                if (mc_would_run() && path[0] == 0)                                           \
                    mc_set_path(&set, cur, path, sizeof path);                                \
                if (mc_would_run())                                                           \
                    hexof(hx, sizeof hx, k.impl, sizeof(NAME));                               \
                mc_case(#NAME " cap=%zu root=init+override(%s) path=[%s] state=(object=%s,qlen=%u,override=%u) op=%d:%s", \
                        cap, rootid ? "on" : "off", path, hx, k.qlen, k.movr, op, OPN[op]);   \
                mc_trans(1);                                                                  \
                TYPE *mem = mc_exact(cap * sizeof(TYPE));                                     \
                NAME c;                                                                       \
                restore_##NAME(&c, mem, &k, cap);                                             \
                struct key m = k; /* model part advanced below */                             \
                const char *outcome = "?";                                                    \
                switch (op) {                                                                 \
                case OP_PUT_A:                                                                \
                case OP_PUT_B: {                                                              \
                    const TYPE v = (op == OP_PUT_A) ? (TYPE)(VA) : (TYPE)(VB);                \
                    NAME##_put(&c, v);                                                        \
                    if (m.qlen == cap) {                                                      \
                        if (m.movr) {                                                         \
                            memmove(m.q, m.q + 1, (cap - 1) * sizeof m.q[0]);                 \
                            m.q[cap - 1] = v;                                                 \
                            outcome = "put-evicts";                                           \
                            saw_evict = true;                                                 \
                        } else {                                                              \
                            outcome = "put-dropped";                                          \
                            saw_drop = true;                                                  \
                        }                                                                     \
                    } else {                                                                  \
                        m.q[m.qlen++] = v;                                                    \
                        outcome = "put-stored";                                               \
                    }                                                                         \
                    break;                                                                    \
                }                                                                             \
                case OP_GET: {                                                                \
                    TYPE v = NAME##_get(&c);                                                  \
                    mc_log("get -> %lx", (unsigned long)v);                                   \
                    if (m.qlen == 0) {                                                        \
                        outcome = "get-empty";                                                \
                        if (v != 0)                                                           \
                            mc_fail("C19/get-empty-zero", "get on empty returned %lx", (unsigned long)v); \
                    } else {                                                                  \
                        outcome = "get-oldest";                                               \
                        if ((uint32_t)v != m.q[0])                                            \
                            mc_fail("C19/get-oldest", "get returned %lx, oldest is %lx", (unsigned long)v, (unsigned long)m.q[0]); \
                        memmove(m.q, m.q + 1, (MAXCAP - 1) * sizeof m.q[0]);                  \
                        m.q[MAXCAP - 1] = 0;                                                  \
                        m.qlen--;                                                             \
                    }                                                                         \
                    break;                                                                    \
                }                                                                             \
                case OP_CLEAR:                                                                \
                    NAME##_clear(&c);                                                         \
                    m.qlen = 0;                                                               \
                    outcome = "clear";                                                        \
                    break;                                                                    \
                case OP_OVR_ON:                                                               \
                case OP_OVR_OFF:                                                              \
                    NAME##_override_if_full(&c, op == OP_OVR_ON);                             \
                    m.movr = (op == OP_OVR_ON);                                               \
                    outcome = "override";                                                     \
                    break;                                                                    \
                }                                                                             \
                for (size_t i = m.qlen; i < MAXCAP; ++i)                                      \
                    m.q[i] = 0; /* canonical model: no stale tail */                          \
                bool sane = true;                                                             \
                if (c.data != mem) {                                                          \
                    mc_fail("C19/geometry-unchanged", "storage pointer changed");             \
                    sane = false;                                                             \
                }                                                                             \
                if (sane) {                                                                   \
                    snapshot_##NAME(&m, &c, mem, cap);                                        \
                    if (mc.active) {                                                          \
                        char hx2[2 * IMPLMAX + 1];                                            \
                        mc_log("after: object=%s", hexof(hx2, sizeof hx2, m.impl, sizeof(NAME))); \
                    }                                                                         \
                    check_observers_##NAME(&c, &m, cap);                                      \
                }                                                                             \
                if (sane && !mc.cur_failed)                                                   \
                    mc_set_add(&set, &m, sizeof m, cur, op, NULL);                            \
                free(mem);                                                                    \
                mc_end(!(op == OP_CLEAR && k.qlen == 0), outcome);                            \
            }                                                                                 \
        }                                                                                     \
        mc.states += (int64_t)set.n;                                                          \
        mc_set_free(&set);                                                                    \
    }

EXPLORER(octet_ring, uint8_t, 0x11, 0xee)
EXPLORER(ring16, uint16_t, 0x1234, 0xabcd)
EXPLORER(ring32, uint32_t, 0x12345678u, 0xabcdef01u)

int
main(int argc, char **argv)
{
    mc_init(argc, argv);
    const size_t maxcap = mc_thorough() ? 10 : 5;
    for (size_t cap = 1; cap <= maxcap; ++cap) {
        /* one partition per (capacity, element type): independent searches */
        if (mc_partition((int)(3 * (maxcap - cap) + 0), (int64_t)(3 * cap + 0)))
            explore_octet_ring(cap);
        if (mc_partition((int)(3 * (maxcap - cap) + 1), (int64_t)(3 * cap + 1)))
            explore_ring16(cap);
        if (mc_partition((int)(3 * (maxcap - cap) + 2), (int64_t)(3 * cap + 2)))
            explore_ring32(cap);
    }
    mc_partition(-1, 99);
    /* vacuity is guarded by the orchestrator's required outcome classes
     * (put-evicts, put-dropped, get-empty, get-oldest, clear): the searches are
     * spread over the shards, so no single process sees all of them */
    char bound[160];
    snprintf(bound, sizeof bound, "capacities 1..%zu x element types u8/u16/u32 x two element values, all operations, observers and both iterators in every state, to fixpoint", maxcap);
    mc_finish(true, bound);
    return 0;
}
