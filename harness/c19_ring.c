/*
 * C19 -- ring buffer: explicit-state search to fixpoint over (implementation
 * state, model queue) pairs.  Three instances of the macro template: the
 * library's own octet_ring (uint8_t) and harness instantiations for uint16_t
 * and uint32_t.  In every reached state the observers size/empty/full and both
 * iterators are run to completion and compared with a bounded deque.
 */
#include "mc.h"

#include <ufw/octet-ring.h>
#include <ufw/ring-buffer-iter.h>
#include <ufw/ring-buffer.h>

RING_BUFFER_API(ring16, uint16_t)
RING_BUFFER_ITER_API(ring16, uint16_t)
RING_BUFFER(ring16, uint16_t)
RING_BUFFER_ITER(ring16, uint16_t)

RING_BUFFER_API(ring32, uint32_t)
RING_BUFFER_ITER_API(ring32, uint32_t)
RING_BUFFER(ring32, uint32_t)
RING_BUFFER_ITER(ring32, uint32_t)

#define MAXCAP 10

enum { OP_PUT_A, OP_PUT_B, OP_GET, OP_CLEAR, OP_OVR_ON, OP_OVR_OFF, NOPS };
static const char *OPN[NOPS] = { "put(A)", "put(B)", "get", "clear", "override(on)", "override(off)" };

struct key {
    uint8_t cap, head, tail, ovr;
    uint32_t cell[MAXCAP];
    uint8_t qlen, movr; /* model: length, override flag */
    uint32_t q[MAXCAP]; /* model: oldest first */
};

static bool saw_wrap, saw_evict, saw_drop;

#define EXPLORER(NAME, TYPE, VA, VB)                                                          \
    static void check_observers_##NAME(const NAME *c, const struct key *m, size_t cap)        \
    {                                                                                         \
        size_t sz = NAME##_size(c);                                                           \
        bool em = NAME##_empty(c), fu = NAME##_full(c);                                       \
        mc_log("size=%zu empty=%d full=%d", sz, em, fu);                                      \
        if (sz != m->qlen)                                                                    \
            mc_fail("C19/size", "size()=%zu, queue holds %u", sz, m->qlen);                   \
        if (em != (m->qlen == 0))                                                             \
            mc_fail("C19/empty", "empty()=%d, queue holds %u", em, m->qlen);                  \
        if (fu != (m->qlen == cap))                                                           \
            mc_fail("C19/full", "full()=%d, queue holds %u of %zu", fu, m->qlen, cap);        \
        for (int dir = 0; dir < 2; ++dir) {                                                   \
            rb_iter it;                                                                       \
            NAME##_iter(&it, c, dir ? RING_BUFFER_ITER_NEW_TO_OLD : RING_BUFFER_ITER_OLD_TO_NEW); \
            size_t steps = 0;                                                                 \
            const char *cl = dir ? "C19/iter-new-to-old" : "C19/iter-old-to-new";             \
            for (; !rb_iter_done(&it); rb_iter_advance(&it), ++steps) {                       \
                if (steps > 2 * cap + 2) {                                                    \
                    mc_fail(cl, "iterator not done after %zu steps", steps);                  \
                    break;                                                                    \
                }                                                                             \
                if (it.index >= cap) {                                                        \
                    mc_fail(cl, "iterator index %zu outside capacity %zu at step %zu", it.index, cap, steps); \
                    break;                                                                    \
                }                                                                             \
                TYPE v = NAME##_inspect(c, &it);                                              \
                mc_log("iter dir=%d step=%zu index=%zu value=%lx", dir, steps, it.index, (unsigned long)v); \
                if (steps >= m->qlen) {                                                       \
                    mc_fail(cl, "iterator yields more than the %u queued elements", m->qlen); \
                    break;                                                                    \
                }                                                                             \
                uint32_t want = dir ? m->q[m->qlen - 1 - steps] : m->q[steps];                \
                if ((uint32_t)v != want) {                                                    \
                    mc_fail(cl, "step %zu yields %lx, queue has %lx", steps, (unsigned long)v, (unsigned long)want); \
                    break;                                                                    \
                }                                                                             \
            }                                                                                 \
            if (steps < m->qlen)                                                              \
                mc_fail(cl, "iterator finished after %zu steps, queue holds %u", steps, m->qlen); \
        }                                                                                     \
    }                                                                                         \
    static void explore_##NAME(size_t cap)                                                    \
    {                                                                                         \
        struct mc_set set;                                                                    \
        mc_set_init(&set);                                                                    \
        struct key k0;                                                                        \
        memset(&k0, 0, sizeof k0);                                                            \
        {                                                                                     \
            TYPE *mem = mc_exact(cap * sizeof(TYPE));                                         \
            memset(mem, 0xee, cap * sizeof(TYPE));                                            \
            NAME c;                                                                           \
            NAME##_init(&c, mem, cap);                                                        \
            k0.cap = (uint8_t)cap;                                                            \
            k0.head = (uint8_t)c.head;                                                        \
            k0.tail = (uint8_t)c.tail;                                                        \
            k0.ovr = c.override_if_full;                                                      \
            for (size_t i = 0; i < cap; ++i)                                                  \
                k0.cell[i] = mem[i];                                                          \
            mc_case(#NAME " cap=%zu initial state", cap);                                     \
            check_observers_##NAME(&c, &k0, cap);                                             \
            mc_end(true, "initial");                                                          \
            free(mem);                                                                        \
        }                                                                                     \
        mc_set_add(&set, &k0, sizeof k0, -1, -1, NULL);                                       \
        for (int64_t cur = 0; cur < (int64_t)set.n; ++cur) {                                  \
            struct key k;                                                                     \
            memcpy(&k, mc_set_key(&set, cur), sizeof k);                                      \
            char path[200] = "";                                                              \
            for (int op = 0; op < NOPS; ++op) {                                               \
                if (mc_would_run() && path[0] == 0)                                           \
                    mc_set_path(&set, cur, path, sizeof path);                                \
                mc_case(#NAME " cap=%zu state=(head=%u,tail=%u,ovr=%u,qlen=%u) path=[%s] op=%d:%s", \
                        cap, k.head, k.tail, k.ovr, k.qlen, path, op, OPN[op]);               \
                mc_trans(1);                                                                  \
                TYPE *mem = mc_exact(cap * sizeof(TYPE));                                     \
                for (size_t i = 0; i < cap; ++i)                                              \
                    mem[i] = (TYPE)k.cell[i];                                                 \
                NAME c;                                                                       \
                c.data = mem;                                                                 \
                c.datasize = cap;                                                             \
                c.head = k.head;                                                              \
                c.tail = k.tail;                                                              \
                c.override_if_full = k.ovr;                                                   \
                struct key m = k; /* model part advanced below */                             \
                const char *outcome = "?";                                                    \
                switch (op) {                                                                 \
                case OP_PUT_A:                                                                \
                case OP_PUT_B: {                                                              \
                    const TYPE v = (op == OP_PUT_A) ? (TYPE)(VA) : (TYPE)(VB);                \
                    NAME##_put(&c, v);                                                        \
                    if (m.qlen == cap) {                                                      \
                        if (m.movr) {                                                         \
                            memmove(m.q, m.q + 1, (cap - 1) * sizeof m.q[0]);                 \
                            m.q[cap - 1] = v;                                                 \
                            outcome = "put-evicts";                                           \
                            saw_evict = true;                                                 \
                        } else {                                                              \
                            outcome = "put-dropped";                                          \
                            saw_drop = true;                                                  \
                        }                                                                     \
                    } else {                                                                  \
                        m.q[m.qlen++] = v;                                                    \
                        outcome = "put-stored";                                               \
                    }                                                                         \
                    break;                                                                    \
                }                                                                             \
                case OP_GET: {                                                                \
                    TYPE v = NAME##_get(&c);                                                  \
                    mc_log("get -> %lx", (unsigned long)v);                                   \
                    if (m.qlen == 0) {                                                        \
                        outcome = "get-empty";                                                \
                        if (v != 0)                                                           \
                            mc_fail("C19/get-empty-zero", "get on empty returned %lx", (unsigned long)v); \
                    } else {                                                                  \
                        outcome = "get-oldest";                                               \
                        if ((uint32_t)v != m.q[0])                                            \
                            mc_fail("C19/get-oldest", "get returned %lx, oldest is %lx", (unsigned long)v, (unsigned long)m.q[0]); \
                        memmove(m.q, m.q + 1, (MAXCAP - 1) * sizeof m.q[0]);                  \
                        m.q[MAXCAP - 1] = 0;                                                  \
                        m.qlen--;                                                             \
                    }                                                                         \
                    break;                                                                    \
                }                                                                             \
                case OP_CLEAR:                                                                \
                    NAME##_clear(&c);                                                         \
                    m.qlen = 0;                                                               \
                    outcome = "clear";                                                        \
                    break;                                                                    \
                case OP_OVR_ON:                                                               \
                case OP_OVR_OFF:                                                              \
                    NAME##_override_if_full(&c, op == OP_OVR_ON);                             \
                    m.movr = (op == OP_OVR_ON);                                               \
                    outcome = "override";                                                     \
                    break;                                                                    \
                }                                                                             \
                for (size_t i = m.qlen; i < MAXCAP; ++i)                                      \
                    m.q[i] = 0; /* canonical model: no stale tail */                          \
                mc_log("after: head=%zu tail=%zu ovr=%d", c.head, c.tail, c.override_if_full); \
                bool sane = true;                                                             \
                if (c.data != mem || c.datasize != cap) {                                     \
                    mc_fail("C19/geometry-unchanged", "data/datasize changed");               \
                    sane = false;                                                             \
                } else if (c.head > cap || c.tail > cap) {                                    \
                    mc_fail("C19/indices-in-range", "head=%zu tail=%zu cap=%zu", c.head, c.tail, cap); \
                    sane = false;                                                             \
                }                                                                             \
                if (sane) {                                                                   \
                    check_observers_##NAME(&c, &m, cap);                                      \
                    if (c.tail != cap && c.tail >= c.head && m.qlen > 1)                      \
                        saw_wrap = true;                                                      \
                }                                                                             \
                if (sane && !mc.cur_failed) {                                                 \
                    m.head = (uint8_t)c.head;                                                 \
                    m.tail = (uint8_t)c.tail;                                                 \
                    m.ovr = c.override_if_full;                                               \
                    for (size_t i = 0; i < cap; ++i)                                          \
                        m.cell[i] = mem[i];                                                   \
                    mc_set_add(&set, &m, sizeof m, cur, op, NULL);                            \
                }                                                                             \
                free(mem);                                                                    \
                mc_end(!(op == OP_CLEAR && k.qlen == 0), outcome);                            \
            }                                                                                 \
        }                                                                                     \
        mc.states += (int64_t)set.n;                                                          \
        mc_set_free(&set);                                                                    \
    }

EXPLORER(octet_ring, uint8_t, 0x11, 0xee)
EXPLORER(ring16, uint16_t, 0x1234, 0xabcd)
EXPLORER(ring32, uint32_t, 0x12345678u, 0xabcdef01u)

int
main(int argc, char **argv)
{
    mc_init(argc, argv);
    const size_t maxcap = mc_thorough() ? 10 : 5;
    for (size_t cap = 1; cap <= maxcap; ++cap) {
        /* one partition per (capacity, element type): independent searches */
        if (mc_partition((int)(3 * (maxcap - cap) + 0), (int64_t)(3 * cap + 0)))
            explore_octet_ring(cap);
        if (mc_partition((int)(3 * (maxcap - cap) + 1), (int64_t)(3 * cap + 1)))
            explore_ring16(cap);
        if (mc_partition((int)(3 * (maxcap - cap) + 2), (int64_t)(3 * cap + 2)))
            explore_ring32(cap);
    }
    mc_partition(-1, 99);
    /* vacuity is guarded by the orchestrator's required outcome classes
     * (put-evicts, put-dropped, get-empty, get-oldest, clear): the searches are
     * spread over the shards, so no single process sees all of them */
    char bound[160];
    snprintf(bound, sizeof bound, "capacities 1..%zu x element types u8/u16/u32 x two element values, all operations, observers and both iterators in every state, to fixpoint", maxcap);
    mc_finish(true, bound);
    return 0;
}
