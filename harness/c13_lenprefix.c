/*
 * C13 -- length-prefix framing: bounded-exhaustive enumeration of closed
 * executions of every flenp_* entry point on the real code, compared with an
 * independently written prefix codec.
 *
 * Families (enumeration order = simplest first):
 *   enc-small   every buffer state (offset <= used <= size <= S), every n <= rest,
 *               every kind, all 8 encoder entry points, chunk sink and octet sink
 *   chunks      every chunk list of 1..C chunks (rest 0..3, lead 0/1, slack 0/1),
 *               active 0..A, chunks_use / chunks_to_sink
 *   enc-long    payload lengths 1..1100 and 65534..65536 on real memory, all 8
 *               entry points
 *   enc-max     32-bit / ssize_t maxima +-1 through *fake* buffers (huge
 *               used/offset fields over a small real block) and a segment sink
 *               that never dereferences beyond what exists
 *   dec-small   3 decoders x every destination buffer state / capacity
 *   dec-long    lengths 1..1100 (+ 16-bit maxima) x capacity len-1,len,len+1
 *   dec-max     32-bit / 64-bit prefix values against a claimed capacity of
 *               len-1 (out-of-memory has to be reported without a write)
 *   stream      1..3 consecutive frames, every composition (fragmentation) of
 *               the stream by a chunk source, 3 decoders
 *   stream2     one frame with a two-octet varint prefix, every fragmentation
 *               with at most two cuts
 *   stream-oct  the same streams through an octet source
 *
 * Case numbering never depends on the implementation's behaviour.
 */
#include "mc.h"

#include <limits.h>

#include <ufw/byte-buffer.h>
#include <ufw/compat/errno.h>
#include <ufw/compat/ssize-t.h>
#include <ufw/endpoints.h>
#include <ufw/length-prefix.h>

/* ------------------------------------------------------------------------ */
/* Reference model: the prefix codec, written from the property statement    */
/* ------------------------------------------------------------------------ */

enum { K_VAR, K_OCT, K_LE16, K_LE32, K_BE16, K_BE32, NKINDS };
static const char *const kname[NKINDS] = { "varint", "octet", "le16", "le32", "be16", "be32" };
static const LengthPrefixKind klib[NKINDS] = { LENP_VARIABLE, LENP_OCTET, LENP_LE_16BIT,
                                                LENP_LE_32BIT, LENP_BE_16BIT, LENP_BE_32BIT };

#define SSZ_MAX ((uint64_t)INT64_MAX)

static uint64_t
ref_max(int k)
{
    switch (k) {
    case K_OCT: return 255u;
    case K_LE16: case K_BE16: return 65535u;
    case K_LE32: case K_BE32: return 4294967295u;
    default: return SSZ_MAX; /* module text: half of the 64-bit range */
    }
}

/* prefix of a length; returns its size (1..10) */
static size_t
ref_prefix(int k, uint64_t len, unsigned char *out)
{
    switch (k) {
    case K_OCT:
        out[0] = (unsigned char)(len & 0xff);
        return 1;
    case K_LE16:
        out[0] = (unsigned char)(len & 0xff);
        out[1] = (unsigned char)((len >> 8) & 0xff);
        return 2;
    case K_BE16:
        out[1] = (unsigned char)(len & 0xff);
        out[0] = (unsigned char)((len >> 8) & 0xff);
        return 2;
    case K_LE32:
        for (int i = 0; i < 4; ++i)
            out[i] = (unsigned char)((len >> (8 * i)) & 0xff);
        return 4;
    case K_BE32:
        for (int i = 0; i < 4; ++i)
            out[3 - i] = (unsigned char)((len >> (8 * i)) & 0xff);
        return 4;
    default: {
        size_t n = 0;
        do {
            unsigned char g = (unsigned char)(len % 128u);
            len /= 128u;
            out[n++] = (unsigned char)(g + (len ? 128u : 0u));
        } while (len);
        return n;
    }
    }
}

enum verdict { V_ACCEPT, V_REFUSE, V_OPEN };

/* What the statement demands for an encoder called with payload length n.
 * Fixed kinds: 1..max accepted, beyond refused.  The varint kind's maximum is
 * not given a number by the statement; the module text says "half" of the
 * 64-bit range, and a sink encoder has to be able to report prefix+payload in
 * an ssize_t.  So: n <= SSIZE_MAX-10 has to be accepted, n > SSIZE_MAX (or a
 * total that does not fit the return type) has to be refused, the few values
 * in between are left open. */
static enum verdict
ref_verdict(int k, uint64_t n, bool to_sink)
{
    if (n > ref_max(k))
        return V_REFUSE;
    if (k != K_VAR)
        return V_ACCEPT;
    if (n <= SSZ_MAX - 10u)
        return V_ACCEPT;
    unsigned char tmp[10];
    if (to_sink && n + ref_prefix(k, n, tmp) > SSZ_MAX)
        return V_REFUSE;
    return V_OPEN;
}

/* position dependent payload octets (period 199, never 0, <= 0xc7) and a
 * disjoint alphabet for what is in a destination before decoding */
static inline unsigned char pat(size_t i) { return (unsigned char)(1u + (i % 199u)); }
static inline unsigned char old(size_t i) { return (unsigned char)(0xd0u + (i % 32u)); }

static void
anchors(void)
{
    unsigned char p[10];
    /* t-length-prefix.c: t_varint_prefix */
    MC_ANCHOR(ref_prefix(K_VAR, 127, p) == 1, "127 takes 1 octet");
    MC_ANCHOR(ref_prefix(K_VAR, 128, p) == 2, "128 takes 2 octets");
    MC_ANCHOR(ref_prefix(K_VAR, 1024, p) == 2 && p[0] == 0x80 && p[1] == 0x08, "1024 -> 80 08");
    /* t_fixint_prefix */
    MC_ANCHOR(ref_prefix(K_OCT, 200, p) == 1 && p[0] == 0xc8, "octet 200 -> c8");
    MC_ANCHOR(ref_verdict(K_OCT, 200, false) == V_ACCEPT && ref_verdict(K_OCT, 256, false) == V_REFUSE, "octet max");
    MC_ANCHOR(ref_prefix(K_LE16, 1024, p) == 2 && p[0] == 0x00 && p[1] == 0x04, "le16 1024 -> 00 04");
    MC_ANCHOR(ref_prefix(K_BE16, 1024, p) == 2 && p[0] == 0x04 && p[1] == 0x00, "be16 1024 -> 04 00");
    MC_ANCHOR(ref_prefix(K_LE32, 1024, p) == 4 && p[0] == 0 && p[1] == 4 && p[2] == 0 && p[3] == 0, "le32 1024");
    MC_ANCHOR(ref_prefix(K_BE32, 1024, p) == 4 && p[0] == 0 && p[1] == 0 && p[2] == 4 && p[3] == 0, "be32 1024");
    MC_ANCHOR(ref_verdict(K_LE16, 65535u, true) == V_ACCEPT && ref_verdict(K_LE16, 65536u, true) == V_REFUSE, "le16 max");
    MC_ANCHOR(ref_verdict(K_BE32, 4294967295u, true) == V_ACCEPT && ref_verdict(K_BE32, 4294967296u, true) == V_REFUSE, "be32 max");
    MC_ANCHOR(ref_prefix(K_LE32, 200, p) == 4 && ref_prefix(K_LE16, 200, p) == 2, "prefix sizes");
    MC_ANCHOR(sizeof(size_t) == 8 && sizeof(ssize_t) == 8, "64-bit host assumed");
    MC_ANCHOR(SSIZE_MAX == INT64_MAX, "ssize_t range");
    MC_ANCHOR(VARINT_64BIT_MAX_OCTETS == 10, "prefix storage");
}

/* ------------------------------------------------------------------------ */
/* Owned environment: sinks and sources                                      */
/* ------------------------------------------------------------------------ */

static char clausebuf[96];
static const char *
clause(const char *ep, const char *what)
{
    snprintf(clausebuf, sizeof clausebuf, "C13/%s-%s", ep, what);
    return clausebuf;
}

/* recording sink: keeps everything it is given, whole request per call */
struct rec {
    unsigned char *buf;
    size_t cap, n, overflow;
    long calls;
};

static void
rec_init(struct rec *r, size_t expect)
{
    r->cap = expect + 64u;
    r->buf = mc_exact(r->cap);
    r->n = r->overflow = 0;
    r->calls = 0;
}

static ssize_t
rec_chunk(void *drv, const void *data, size_t n)
{
    struct rec *r = drv;
    r->calls++;
    const size_t room = r->cap - r->n;
    const size_t m = n < room ? n : room;
    memcpy(r->buf + r->n, data, m);
    r->n += m;
    r->overflow += n - m;
    return (ssize_t)n;
}

static int
rec_octet(void *drv, unsigned char c)
{
    struct rec *r = drv;
    r->calls++;
    if (r->n < r->cap)
        r->buf[r->n++] = c;
    else
        r->overflow++;
    return 1;
}

static void
rec_sink(Sink *s, struct rec *r, int octetkind)
{
    if (octetkind)
        octet_sink_init(s, rec_octet, r);
    else
        chunk_sink_init(s, rec_chunk, r);
}

/* sink with a capacity: a request that does not fit is refused with -ENOMEM and
 * nothing of it is stored */
static ssize_t
cap_chunk(void *drv, const void *data, size_t n)
{
    struct rec *r = drv;
    r->calls++;
    if (n > r->cap - r->n)
        return -ENOMEM;
    memcpy(r->buf + r->n, data, n);
    r->n += n;
    return (ssize_t)n;
}

static void
cap_init(struct rec *r, size_t cap)
{
    r->cap = cap;
    r->buf = mc_exact(cap);
    r->n = r->overflow = 0;
    r->calls = 0;
}

/* segment sink for the maxima: payload pointers are recognised by the real
 * block they point into and only the octets that really exist are read */
#define SEG_BLOCKS 4
#define SEG_MAX 8
struct seg {
    const unsigned char *base[SEG_BLOCKS];
    size_t real[SEG_BLOCKS];
    size_t patbase[SEG_BLOCKS];
    int nblk;
    unsigned char pfx[16];
    size_t npfx;
    bool bad_pfx, bad_content, too_many;
    struct { int blk; size_t off, len; } s[SEG_MAX];
    int ns;
    long calls;
};

static ssize_t
seg_chunk(void *drv, const void *data, size_t n)
{
    struct seg *g = drv;
    const unsigned char *p = data;
    g->calls++;
    for (int b = 0; b < g->nblk; ++b) {
        if (p >= g->base[b] && p < g->base[b] + g->real[b]) {
            const size_t off = (size_t)(p - g->base[b]);
            const size_t rd = n < g->real[b] - off ? n : g->real[b] - off;
            for (size_t i = 0; i < rd; ++i)
                if (p[i] != pat(g->patbase[b] + off + i))
                    g->bad_content = true;
            if (g->ns && g->s[g->ns - 1].blk == b
                && g->s[g->ns - 1].off + g->s[g->ns - 1].len == off) {
                g->s[g->ns - 1].len += n;
            } else if (g->ns < SEG_MAX) {
                g->s[g->ns].blk = b;
                g->s[g->ns].off = off;
                g->s[g->ns].len = n;
                g->ns++;
            } else {
                g->too_many = true;
            }
            return (ssize_t)n;
        }
    }
    /* not payload memory: prefix storage of the library */
    if (g->ns == 0 && g->npfx + n <= sizeof g->pfx) {
        memcpy(g->pfx + g->npfx, p, n);
        g->npfx += n;
    } else {
        g->bad_pfx = true;
    }
    return (ssize_t)n;
}

/* scripted source over a finite stream.  cuts: bit i set = a fragment ends
 * after stream octet i.  A call never returns octets beyond the current
 * fragment; asking for less leaves the remainder of the fragment readable. */
struct src {
    const unsigned char *stream;
    size_t len, pos;
    const unsigned char *cut; /* cut[i] != 0: fragment boundary after octet i; NULL = none */
    long calls, budget;
    bool over_budget;
};

static void
src_init(struct src *s, const unsigned char *stream, size_t len, const unsigned char *cut)
{
    s->stream = stream;
    s->len = len;
    s->pos = 0;
    s->cut = cut;
    s->calls = 0;
    s->budget = 8 * (long)len + 256;
    s->over_budget = false;
}

static ssize_t
src_chunk(void *drv, void *data, size_t n)
{
    struct src *s = drv;
    if (++s->calls > s->budget) {
        s->over_budget = true;
        return -EIO;
    }
    if (s->pos >= s->len)
        return -ENODATA;
    size_t end = s->len;
    if (s->cut)
        for (size_t i = s->pos; i < s->len; ++i)
            if (s->cut[i]) {
                end = i + 1;
                break;
            }
    size_t m = end - s->pos;
    if (m > n)
        m = n;
    memcpy(data, s->stream + s->pos, m);
    s->pos += m;
    return (ssize_t)m;
}

static int
src_octet(void *drv, void *data)
{
    struct src *s = drv;
    if (++s->calls > s->budget) {
        s->over_budget = true;
        return -EIO;
    }
    if (s->pos >= s->len)
        return -ENODATA;
    *(unsigned char *)data = s->stream[s->pos++];
    return 1;
}

#include "c13_lenprefix_enc.inc"
#include "c13_lenprefix_dec.inc"

int
main(int argc, char **argv)
{
    mc_init(argc, argv);
    anchors();
    const bool T = mc_thorough();
    enc_small(T ? 8 : 6);
    enc_chunks(T ? 4 : 3, T ? 2 : 1);
    enc_long();
    enc_max();
    dec_small(T ? 8 : 6);
    dec_long();
    dec_max();
    streams(T ? 13 : 10);
    stream_two_cuts();
    streams_octet(T ? 13 : 10);
    char bound[400];
    snprintf(bound, sizeof bound,
             "6 kinds; encoders: buffer states size<=%d x n<=rest, chunk lists <=%d chunks (rest 0..3, lead/slack 0..1, active<=%d), "
             "lengths 1..1100 + 65534..65536, maxima 2^31,2^32,SSIZE_MAX +-1 via fake buffers; decoders: buffer states size<=%d, "
             "lengths 1..1100 x cap len-1..len+1, maxima vs cap len-1; streams of 1..3 frames with <=%d octets under all 2^(L-1) "
             "fragmentations, 130-octet stream under all <=2-cut fragmentations, octet source",
             T ? 8 : 6, T ? 4 : 3, T ? 2 : 1, T ? 8 : 6, T ? 13 : 10);
    mc_finish(true, bound);
    return 0;
}
