/*
 * C13 -- length-prefix framing: bounded-exhaustive enumeration of closed
 * executions of every flenp_* entry point on the real code, compared with an
 * independently written prefix codec.
 *
 * Families (enumeration order = simplest first):
 *   enc-small   every buffer state (offset <= used <= size <= S), every n <= rest,
 *               every kind, all 8 encoder entry points, chunk sink and octet sink
 *   chunks      every chunk list of 1..C chunks (rest 0..3, lead 0/1, slack 0/1),
 *               active 0..A, chunks_use / chunks_to_sink
 *   enc-long    payload lengths 1..1100 and 65534..65536 on real memory, all 8
 *               entry points
 *   enc-max     32-bit / ssize_t maxima +-1 through *fake* buffers (huge
 *               used/offset fields over a small real block) and a segment sink
 *               that never dereferences beyond what exists
 *   dec-small   3 decoders x every destination buffer state / capacity
 *   dec-long    lengths 1..1100 (+ 16-bit maxima) x capacity len-1,len,len+1
 *   dec-max     32-bit / 63-bit prefix values (up to the kind's maximum) against
 *               a real destination of 1 and 7 octets (out-of-memory has to be
 *               reported without a write beyond it)
 *   stream      1..3 consecutive frames, every composition (fragmentation) of
 *               the stream by a chunk source, 3 decoders
 *   stream2     one frame with a two-octet varint prefix, every fragmentation
 *               with at most two cuts
 *   stream-oct  the same streams through an octet source
 *   enc-sinkbeh the four sink encoders into sinks that answer within the driver
 *               contract but not "everything at once": octet sinks answering 0 /
 *               EINTR / EAGAIN before they take the octet, chunk sinks taking 1 /
 *               asked-1 octets or answering 0 / EINTR / EAGAIN; every placement
 *               of <= D such answers over the first W sink calls
 *   enc-refuse-n the two _n entry points asked for more than any kind can
 *               frame *and* more than the buffer holds (n up to SIZE_MAX, every
 *               buffer state incl. offset > 0): either refused, nothing emitted,
 *               the buffer is not moved backwards, then a second slice off the
 *               same buffer; or (at-most reading) exactly the unread octets are
 *               framed and the buffer is advanced by their number
 *   enc-max ... first-sink-answer  the maxima with a sink that takes 2^31 /
 *               2^32-11 / 2^32-4 / 2^32-5 / 2^32 octets in its first call
 *   dec-huge    frames of 2^32-1 .. 2^33 octets into an untouched 8 GiB mapping
 *               from a source that delivers one of those counts in its first
 *               read (octets identified by address; a decoder that does not
 *               deliver in place -- bounce buffer -- is not judged)
 *
 * Case numbering never depends on the implementation's behaviour.
 */
#include "mc.h"

/* The start-up probe of the stacked-endpoint families runs their closed
 * executions outside any case: an oracle failure is then only noted. */
static bool probe_mode, probe_failed;
static char probe_clause[128], probe_detail[900];
static void probe_note(const char *cl, const char *fmt, ...) __attribute__((format(printf, 2, 3)));
static void
probe_note(const char *cl, const char *fmt, ...)
{
    /* the first failure of an execution that runs in probe mode (kept so that
     * it can be reported afterwards if it turns out to be the library's) */
    va_list ap;
    snprintf(probe_clause, sizeof probe_clause, "%s", cl);
    va_start(ap, fmt);
    vsnprintf(probe_detail, sizeof probe_detail, fmt, ap);
    va_end(ap);
}
#define mc_fail(...)                                                           \
    do {                                                                       \
        if (probe_mode) {                                                      \
            if (!probe_failed)                                                 \
                probe_note(__VA_ARGS__);                                       \
            probe_failed = true;                                               \
        } else                                                                 \
            (mc_fail)(__VA_ARGS__);                                            \
    } while (0)
#define CUR_FAILED() (probe_mode ? probe_failed : mc.cur_failed)

#include <limits.h>
#include <sys/mman.h>

#include <ufw/byte-buffer.h>
#include <ufw/compat/errno.h>
#include <ufw/compat/ssize-t.h>
#include <ufw/endpoints.h>
#include <ufw/length-prefix.h>

/* ------------------------------------------------------------------------ */
/* Reference model: the prefix codec, written from the property statement    */
/* ------------------------------------------------------------------------ */

/* K_VARW is not a seventh encoding: it is the varint kind reached through the
 * header's compatibility entry points lenp_*() (include/ufw/length-prefix.h)
 * instead of flenp_*(LENP_VARIABLE, ...).  Treating it as a kind drives every
 * public entry point of the header through every family and the same oracle. */
enum { K_VAR, K_OCT, K_LE16, K_LE32, K_BE16, K_BE32, K_VARW, NKINDS };
#define NFLENP K_VARW /* kinds of the flenp_* functions proper */
static const char *const kname[NKINDS] = { "varint", "octet", "le16", "le32", "be16", "be32", "varint-via-lenp-wrappers" };
static const LengthPrefixKind klib[NKINDS] = { LENP_VARIABLE, LENP_OCTET, LENP_LE_16BIT,
                                                LENP_LE_32BIT, LENP_BE_16BIT, LENP_BE_32BIT, LENP_VARIABLE };

/* Every call of the library goes through these: flenp_* with the kind, or the
 * lenp_* entry point of the same name (written as a call, so that it may be
 * an inline function or a macro).  The result is converted from whatever type
 * the entry point returns, as a caller's `ssize_t rc = lenp_...()` would. */
#define X_ENTRY(ret, name, params, flenp_args, lenp_args)                       \
    static ret X_##name params                                                  \
    {                                                                           \
        if (k == K_VARW)                                                        \
            return lenp_##name lenp_args;                                       \
        return flenp_##name flenp_args;                                         \
    }
X_ENTRY(int, memory_encode, (int k, LengthPrefixBuffer *l, void *m, size_t n), (klib[k], l, m, n), (l, m, n))
X_ENTRY(int, buffer_encode, (int k, LengthPrefixBuffer *l, ByteBuffer *b), (klib[k], l, b), (l, b))
X_ENTRY(int, buffer_encode_n, (int k, LengthPrefixBuffer *l, ByteBuffer *b, size_t n), (klib[k], l, b, n), (l, b, n))
X_ENTRY(int, chunks_use, (int k, LengthPrefixChunks *c), (klib[k], c), (c))
X_ENTRY(ssize_t, memory_to_sink, (int k, Sink *s, void *m, size_t n), (klib[k], s, m, n), (s, m, n))
X_ENTRY(ssize_t, buffer_to_sink, (int k, Sink *s, ByteBuffer *b), (klib[k], s, b), (s, b))
X_ENTRY(ssize_t, buffer_to_sink_n, (int k, Sink *s, ByteBuffer *b, size_t n), (klib[k], s, b, n), (s, b, n))
X_ENTRY(ssize_t, chunks_to_sink, (int k, Sink *s, ByteChunks *c), (klib[k], s, c), (s, c))
X_ENTRY(ssize_t, memory_from_source, (int k, Source *s, void *m, size_t n), (klib[k], s, m, n), (s, m, n))
X_ENTRY(ssize_t, buffer_from_source, (int k, Source *s, ByteBuffer *b), (klib[k], s, b), (s, b))
X_ENTRY(ssize_t, decode_source_to_sink, (int k, Source *s, Sink *t), (klib[k], s, t), (s, t))

#define SSZ_MAX ((uint64_t)INT64_MAX)

static uint64_t
ref_max(int k)
{
    switch (k) {
    case K_OCT: return 255u;
    case K_LE16: case K_BE16: return 65535u;
    case K_LE32: case K_BE32: return 4294967295u;
    default: return SSZ_MAX; /* module text: half of the 64-bit range */
    }
}

/* prefix of a length; returns its size (1..10) */
static size_t
ref_prefix(int k, uint64_t len, unsigned char *out)
{
    switch (k) {
    case K_OCT:
        out[0] = (unsigned char)(len & 0xff);
        return 1;
    case K_LE16:
        out[0] = (unsigned char)(len & 0xff);
        out[1] = (unsigned char)((len >> 8) & 0xff);
        return 2;
    case K_BE16:
        out[1] = (unsigned char)(len & 0xff);
        out[0] = (unsigned char)((len >> 8) & 0xff);
        return 2;
    case K_LE32:
        for (int i = 0; i < 4; ++i)
            out[i] = (unsigned char)((len >> (8 * i)) & 0xff);
        return 4;
    case K_BE32:
        for (int i = 0; i < 4; ++i)
            out[3 - i] = (unsigned char)((len >> (8 * i)) & 0xff);
        return 4;
    default: {
        size_t n = 0;
        do {
            unsigned char g = (unsigned char)(len % 128u);
            len /= 128u;
            out[n++] = (unsigned char)(g + (len ? 128u : 0u));
        } while (len);
        return n;
    }
    }
}

enum verdict { V_ACCEPT, V_REFUSE, V_OPEN };

/* What the statement demands for an encoder called with payload length n.
 * Fixed kinds: 1..max accepted, beyond refused.  The varint kind's maximum is
 * not given a number by the statement; the module text says "half" of the
 * 64-bit range, and a sink encoder has to be able to report prefix+payload in
 * an ssize_t.  So: n <= SSIZE_MAX-10 has to be accepted, n > SSIZE_MAX (or a
 * total that does not fit the return type) has to be refused, the few values
 * in between are left open. */
static enum verdict
ref_verdict(int k, uint64_t n, bool to_sink)
{
    if (n > ref_max(k))
        return V_REFUSE;
    if (k != K_VAR && k != K_VARW)
        return V_ACCEPT;
    if (n <= SSZ_MAX - 10u)
        return V_ACCEPT;
    unsigned char tmp[10];
    if (to_sink && n + ref_prefix(k, n, tmp) > SSZ_MAX)
        return V_REFUSE;
    return V_OPEN;
}

/* position dependent payload octets (period 199, never 0, <= 0xc7) and a
 * disjoint alphabet for what is in a destination before decoding */
static inline unsigned char pat(size_t i) { return (unsigned char)(1u + (i % 199u)); }
static inline unsigned char old(size_t i) { return (unsigned char)(0xd0u + (i % 32u)); }

static void
anchors(void)
{
    unsigned char p[10];
    /* t-length-prefix.c: t_varint_prefix */
    MC_ANCHOR(ref_prefix(K_VAR, 127, p) == 1, "127 takes 1 octet");
    MC_ANCHOR(ref_prefix(K_VAR, 128, p) == 2, "128 takes 2 octets");
    MC_ANCHOR(ref_prefix(K_VAR, 1024, p) == 2 && p[0] == 0x80 && p[1] == 0x08, "1024 -> 80 08");
    /* t_fixint_prefix */
    MC_ANCHOR(ref_prefix(K_OCT, 200, p) == 1 && p[0] == 0xc8, "octet 200 -> c8");
    MC_ANCHOR(ref_verdict(K_OCT, 200, false) == V_ACCEPT && ref_verdict(K_OCT, 256, false) == V_REFUSE, "octet max");
    MC_ANCHOR(ref_prefix(K_LE16, 1024, p) == 2 && p[0] == 0x00 && p[1] == 0x04, "le16 1024 -> 00 04");
    MC_ANCHOR(ref_prefix(K_BE16, 1024, p) == 2 && p[0] == 0x04 && p[1] == 0x00, "be16 1024 -> 04 00");
    MC_ANCHOR(ref_prefix(K_LE32, 1024, p) == 4 && p[0] == 0 && p[1] == 4 && p[2] == 0 && p[3] == 0, "le32 1024");
    MC_ANCHOR(ref_prefix(K_BE32, 1024, p) == 4 && p[0] == 0 && p[1] == 0 && p[2] == 4 && p[3] == 0, "be32 1024");
    MC_ANCHOR(ref_verdict(K_LE16, 65535u, true) == V_ACCEPT && ref_verdict(K_LE16, 65536u, true) == V_REFUSE, "le16 max");
    MC_ANCHOR(ref_verdict(K_BE32, 4294967295u, true) == V_ACCEPT && ref_verdict(K_BE32, 4294967296u, true) == V_REFUSE, "be32 max");
    MC_ANCHOR(ref_prefix(K_LE32, 200, p) == 4 && ref_prefix(K_LE16, 200, p) == 2, "prefix sizes");
    MC_ANCHOR(sizeof(size_t) == 8 && sizeof(ssize_t) == 8, "64-bit host assumed");
    MC_ANCHOR(SSIZE_MAX == INT64_MAX, "ssize_t range");
    MC_ANCHOR(VARINT_64BIT_MAX_OCTETS == 10, "prefix storage");
}

/* ------------------------------------------------------------------------ */
/* Owned environment: sinks and sources                                      */
/* ------------------------------------------------------------------------ */

static char clausebuf[96];
static const char *
clause(const char *ep, const char *what)
{
    snprintf(clausebuf, sizeof clausebuf, "C13/%s-%s", ep, what);
    return clausebuf;
}

/* recording sink: keeps everything it is given, whole request per call */
struct rec {
    unsigned char *buf;
    size_t cap, n, overflow;
    long calls;
};

static void
rec_init(struct rec *r, size_t expect)
{
    r->cap = expect + 64u;
    r->buf = mc_exact(r->cap);
    r->n = r->overflow = 0;
    r->calls = 0;
}

static ssize_t
rec_chunk(void *drv, const void *data, size_t n)
{
    struct rec *r = drv;
    r->calls++;
    const size_t room = r->cap - r->n;
    const size_t m = n < room ? n : room;
    memcpy(r->buf + r->n, data, m);
    r->n += m;
    r->overflow += n - m;
    return (ssize_t)n;
}

static int
rec_octet(void *drv, unsigned char c)
{
    struct rec *r = drv;
    r->calls++;
    if (r->n < r->cap)
        r->buf[r->n++] = c;
    else
        r->overflow++;
    return 1;
}

static void
rec_sink(Sink *s, struct rec *r, int octetkind)
{
    if (octetkind)
        octet_sink_init(s, rec_octet, r);
    else
        chunk_sink_init(s, rec_chunk, r);
}

/* sink with a capacity: a request that does not fit is refused with -ENOMEM and
 * nothing of it is stored */
static ssize_t
cap_chunk(void *drv, const void *data, size_t n)
{
    struct rec *r = drv;
    r->calls++;
    if (n > r->cap - r->n)
        return -ENOMEM;
    memcpy(r->buf + r->n, data, n);
    r->n += n;
    return (ssize_t)n;
}

static void
cap_init(struct rec *r, size_t cap)
{
    r->cap = cap;
    r->buf = mc_exact(cap);
    r->n = r->overflow = 0;
    r->calls = 0;
}

/* scripted sink: answers the first calls from a script, then takes everything
 * it is given; keeps what it accepted.  Every answer is one the driver
 * contract of endpoints/core.c allows (a count <= asked, 0, -EINTR, -EAGAIN). */
enum sb { SB_ALL, SB_ONE, SB_KM1, SB_ZERO, SB_EINTR, SB_EAGAIN, SB__N };
static const char *const sbname[] = { "r", "1", "k", "0", "EINTR", "EAGAIN" };
struct bsink {
    struct rec r;
    const uint8_t *script;
    int slen, pos;
    long budget;
    bool over;
    int zeros, intrs, partials;
};

static bool
bs_scripted(struct bsink *b, ssize_t *ans, int *tok)
{
    if (++b->r.calls > b->budget) {
        b->over = true;
        *ans = -EIO;
        return true;
    }
    *tok = b->pos < b->slen ? b->script[b->pos++] : SB_ALL;
    switch (*tok) {
    case SB_ZERO: b->zeros++; *ans = 0; return true;
    case SB_EINTR: b->intrs++; *ans = -EINTR; return true;
    case SB_EAGAIN: b->intrs++; *ans = -EAGAIN; return true;
    default: return false;
    }
}

static ssize_t
bs_chunk(void *drv, const void *data, size_t n)
{
    struct bsink *b = drv;
    ssize_t ans;
    int tok;
    if (bs_scripted(b, &ans, &tok))
        return ans;
    size_t m = tok == SB_ONE ? 1u : tok == SB_KM1 ? (n > 1 ? n - 1u : n) : n;
    if (m > n)
        m = n;
    if (m < n)
        b->partials++;
    struct rec *r = &b->r;
    const size_t room = r->cap - r->n;
    const size_t st = m < room ? m : room;
    memcpy(r->buf + r->n, data, st);
    r->n += st;
    r->overflow += m - st;
    return (ssize_t)m;
}

static int
bs_octet(void *drv, unsigned char c)
{
    struct bsink *b = drv;
    ssize_t ans;
    int tok;
    if (bs_scripted(b, &ans, &tok))
        return (int)ans;
    struct rec *r = &b->r;
    if (r->n < r->cap)
        r->buf[r->n++] = c;
    else
        r->overflow++;
    return 1;
}

/* segment sink for the maxima: payload pointers are recognised by the real
 * block they point into and only the octets that really exist are read */
#define SEG_BLOCKS 4 /* run_sum uses up to all of them as chunks */
#define SEG_MAX 8
#define SEG_BUDGET 256
struct seg {
    const unsigned char *base[SEG_BLOCKS];
    size_t real[SEG_BLOCKS];
    size_t patbase[SEG_BLOCKS];
    int nblk;
    unsigned char pfx[16];
    size_t npfx;
    bool bad_pfx, bad_content, too_many;
    bool foreign; /* octets behind the prefix arrived from memory that is not the caller's (by value / staged) */
    struct { int blk; size_t off, len; } s[SEG_MAX];
    int ns;
    long calls;
    uint64_t first_answer; /* != 0: the first payload call takes only so many octets */
    bool first_done;
    const unsigned char *cont; /* where the octets behind the last accepted range start */
    int cont_blk;
    size_t cont_off;
    bool gave_up;
};

static ssize_t
seg_chunk(void *drv, const void *data, size_t n)
{
    struct seg *g = drv;
    const unsigned char *p = data;
    if (++g->calls > SEG_BUDGET) {
        /* either a loop that does not end or an implementation that hands its
         * sink little at a time; judge_seg() tells them apart by what arrived */
        g->gave_up = true;
        return -EIO;
    }
    int blk = -1;
    size_t off = 0;
    if (g->cont != NULL && p == g->cont) {
        /* the octets behind a partial answer: beyond what really exists of the block */
        blk = g->cont_blk;
        off = g->cont_off;
    } else {
        for (int b = 0; b < g->nblk && blk < 0; ++b)
            if (p >= g->base[b] && p < g->base[b] + g->real[b]) {
                blk = b;
                off = (size_t)(p - g->base[b]);
            }
    }
    if (blk < 0) {
        /* not payload memory of the caller: prefix storage of the library -- or
         * payload octets that the library hands over by value or from a staging
         * buffer of its own (they are real memory: read what fits).  Identifying
         * payload by address is a technique of this family, not a sentence of the
         * statement: such a case cannot be followed and is not judged (audit 6) */
        const size_t room = sizeof g->pfx - g->npfx;
        const size_t m = (g->ns == 0) ? (n < room ? n : room) : 0;
        memcpy(g->pfx + g->npfx, p, m);
        g->npfx += m;
        if (m < n)
            g->foreign = true;
        return (ssize_t)n;
    }
    if (g->first_answer && !g->first_done) {
        g->first_done = true;
        if (g->first_answer < n)
            n = (size_t)g->first_answer;
    }
    g->cont = p + n;
    g->cont_blk = blk;
    g->cont_off = off + n;
    if (off < g->real[blk]) {
        const size_t rd = n < g->real[blk] - off ? n : g->real[blk] - off;
        for (size_t i = 0; i < rd; ++i)
            if (p[i] != pat(g->patbase[blk] + off + i))
                g->bad_content = true;
    }
    if (g->ns && g->s[g->ns - 1].blk == blk && g->s[g->ns - 1].off + g->s[g->ns - 1].len == off) {
        g->s[g->ns - 1].len += n;
    } else if (g->ns < SEG_MAX) {
        g->s[g->ns].blk = blk;
        g->s[g->ns].off = off;
        g->s[g->ns].len = n;
        g->ns++;
    } else {
        g->too_many = true;
    }
    return (ssize_t)n;
}

/* scripted source over a finite stream.  cuts: bit i set = a fragment ends
 * after stream octet i.  A call never returns octets beyond the current
 * fragment; asking for less leaves the remainder of the fragment readable. */
struct src {
    const unsigned char *stream;
    size_t len, pos;
    const unsigned char *cut; /* cut[i] != 0: fragment boundary after octet i; NULL = none */
    long calls, budget;
    bool over_budget;
    unsigned char *scratch; /* != NULL: the source offers this block (getbuffer extension) */
    size_t scratch_size;
};

static ByteBuffer
src_getbuffer(Source *source)
{
    const struct src *s = source->driver;
    ByteBuffer b;
    b.data = s->scratch;
    b.size = b.used = s->scratch_size;
    b.offset = 0;
    return b;
}

static void
src_init(struct src *s, const unsigned char *stream, size_t len, const unsigned char *cut)
{
    s->stream = stream;
    s->len = len;
    s->pos = 0;
    s->cut = cut;
    s->calls = 0;
    s->budget = 8 * (long)len + 256;
    s->over_budget = false;
    s->scratch = NULL;
    s->scratch_size = 0;
}

static ssize_t
src_chunk(void *drv, void *data, size_t n)
{
    struct src *s = drv;
    if (++s->calls > s->budget) {
        s->over_budget = true;
        return -EIO;
    }
    if (s->pos >= s->len)
        return -ENODATA;
    size_t end = s->len;
    if (s->cut)
        for (size_t i = s->pos; i < s->len; ++i)
            if (s->cut[i]) {
                end = i + 1;
                break;
            }
    size_t m = end - s->pos;
    if (m > n)
        m = n;
    memcpy(data, s->stream + s->pos, m);
    s->pos += m;
    return (ssize_t)m;
}

static int
src_octet(void *drv, void *data)
{
    struct src *s = drv;
    if (++s->calls > s->budget) {
        s->over_budget = true;
        return -EIO;
    }
    if (s->pos >= s->len)
        return -ENODATA;
    *(unsigned char *)data = s->stream[s->pos++];
    return 1;
}

/* ------------------------------------------------------------------------ */
/* Encoders                                                                  */
/* ------------------------------------------------------------------------ */

enum ep { EP_MEM_ENC, EP_BUF_ENC, EP_BUF_ENC_N, EP_CHUNKS_USE,
          EP_MEM_SINK, EP_BUF_SINK, EP_BUF_SINK_N, EP_CHUNKS_SINK };
static const char *const epname[] = { "memory_encode", "buffer_encode", "buffer_encode_n", "chunks_use",
                                      "memory_to_sink", "buffer_to_sink", "buffer_to_sink_n", "chunks_to_sink" };
static const char *const skname[] = { "chunk", "octet", "-" };

static const char *
verdict_outcome(enum verdict v, int fam)
{
    /* fam 0 enc, 1 chunks, 2 encmax */
    static const char *const t[3][3] = {
        { "enc-accept", "enc-refuse", "enc-open" },
        { "chunks-accept", "chunks-refuse", "chunks-open" },
        { "encmax-accept", "encmax-refuse", "encmax-open" },
    };
    return t[fam][v];
}

/* sink encoders: prefix ++ exactly the designated octets, return = total;
 * over-max: refused, nothing emitted.  Returns true when the call was (and had
 * to be / was allowed to be) accepted. */
static bool
judge_sink(const char *ep, int k, uint64_t n, const unsigned char *pay,
           const struct rec *r, ssize_t rc)
{
    unsigned char pfx[10];
    const size_t pl = ref_prefix(k, n, pfx);
    const enum verdict v = ref_verdict(k, n, true);
    const size_t got = r->n + r->overflow;
    mc_log("%s rc=%zd emitted=%zu", ep, rc, got);
    mc_log_hex("emitted-head", r->buf, r->n < 24 ? r->n : 24);
    if (v == V_REFUSE || (v == V_OPEN && rc < 0)) {
        if (rc >= 0)
            mc_fail(clause(ep, "refuses-overmax"), "length %llu beyond the %s maximum returned %zd",
                    (unsigned long long)n, kname[k], rc);
        else if (got != 0)
            mc_fail(clause(ep, "refuses-overmax"), "refused (rc=%zd) after %zu octets were emitted", rc, got);
        return false;
    }
    if (rc < 0) {
        mc_fail(clause(ep, "accepts"), "length %llu (%s) refused rc=%zd after %zu octets emitted",
                (unsigned long long)n, kname[k], rc, got);
        return false;
    }
    if (got < pl || memcmp(r->buf, pfx, pl) != 0) {
        mc_fail(clause(ep, "prefix"), "first octets are not the %s encoding of %llu (emitted %zu octets, rc=%zd)",
                kname[k], (unsigned long long)n, got, rc);
        return true;
    }
    if (got != pl + n || r->overflow || memcmp(r->buf + pl, pay, (size_t)n) != 0) {
        mc_fail(clause(ep, "payload"), "after the prefix: %zu octets emitted, %llu designated, content %s",
                got - pl, (unsigned long long)n,
                (got - pl >= n && !r->overflow && memcmp(r->buf + pl, pay, (size_t)n) == 0) ? "starts right" : "differs");
        return true;
    }
    if ((uint64_t)rc != pl + n)
        mc_fail(clause(ep, "total"), "returned %zd, prefix+payload is %llu", rc, (unsigned long long)(pl + n));
    return true;
}

/* prefix-object encoders: status >= 0, prefix view = the encoding, payload view
 * designates exactly the octets (pointer and length; it is a view) */
/* The extent of the object's prefix storage is that of the member as compiled
 * (sizeof obj->prefix_), not a constant of the harness: an object with more
 * storage and the encoding anywhere inside it is fine (audit 6). */
#define judge_obj(ep, k, n, pay, storage, prefix, payload, rc)                                    \
    judge_obj_(ep, k, n, pay, storage, sizeof(storage), prefix, payload, rc)
static bool
judge_obj_(const char *ep, int k, uint64_t n, const unsigned char *pay,
           const unsigned char *prefix_storage, size_t storage_len, const ByteBuffer *prefix,
           const ByteBuffer *payload, int rc)
{
    unsigned char pfx[10];
    const size_t pl = ref_prefix(k, n, pfx);
    const enum verdict v = ref_verdict(k, n, false);
    mc_log("%s rc=%d", ep, rc);
    if (v == V_REFUSE || (v == V_OPEN && rc < 0)) {
        if (rc >= 0)
            mc_fail(clause(ep, "refuses-overmax"), "length %llu beyond the %s maximum returned %d",
                    (unsigned long long)n, kname[k], rc);
        return false;
    }
    if (rc < 0) {
        mc_fail(clause(ep, "accepts"), "length %llu (%s) refused rc=%d", (unsigned long long)n, kname[k], rc);
        return false;
    }
    /* where inside the object's storage the encoding sits is the implementation's business */
    if (prefix->data < prefix_storage || prefix->data > prefix_storage + storage_len
        || prefix->used > (size_t)(prefix_storage + storage_len - prefix->data)
        || prefix->offset > prefix->used) {
        mc_fail(clause(ep, "prefix"), "prefix view is not inside the object's prefix storage (used=%zu offset=%zu)",
                prefix->used, prefix->offset);
        return true;
    }
    mc_log_hex("prefix-view", prefix->data + prefix->offset, prefix->used - prefix->offset);
    if (prefix->used - prefix->offset != pl || memcmp(prefix->data + prefix->offset, pfx, pl) != 0) {
        mc_fail(clause(ep, "prefix"), "prefix view (%zu octets) is not the %s encoding of %llu",
                prefix->used - prefix->offset, kname[k], (unsigned long long)n);
        return true;
    }
    if (payload != NULL) {
        const intptr_t delta = (intptr_t)((uintptr_t)payload->data + payload->offset - (uintptr_t)pay);
        mc_log("payload-view offset-in-source=%td rest=%zu", (ptrdiff_t)delta, payload->used - payload->offset);
        if (payload->offset > payload->used || payload->used - payload->offset != n || delta != 0)
            mc_fail(clause(ep, "payload"), "payload view designates %zu octets starting %td octets from the designated start, expected %llu at 0",
                    payload->used - payload->offset, (ptrdiff_t)delta, (unsigned long long)n);
    }
    return true;
}

static void
check_advance(const char *ep, const ByteBuffer *b, const unsigned char *mem,
              size_t size, size_t used, size_t off, size_t n)
{
    mc_log("buffer after: used=%zu offset=%zu", b->used, b->offset);
    if (b->data != mem || b->size != size || b->used != used || b->offset != off + n)
        mc_fail(clause(ep, "advances"), "buffer after the call: used=%zu offset=%zu, expected used=%zu offset=%zu (advanced by n=%zu)",
                b->used, b->offset, used, off + n, n);
}

/* A refused request of an _n entry point: whether the buffer is advanced
 * anyway is not said (the code does, by n, when n octets are there), but the
 * buffer can only ever be *advanced*, and only over octets it holds: the read
 * position must not move backwards (octets framed before would be designated
 * again by the next slice) or beyond the fill mark.  Returns true if so. */
static bool
check_position(const char *ep, const ByteBuffer *b, const unsigned char *mem,
               size_t size, size_t used, size_t off, uint64_t n)
{
    mc_log("buffer after the refused request: used=%zu offset=%zu", b->used, b->offset);
    if (b->data == mem && b->size == size && b->used == used && b->offset >= off && b->offset <= used)
        return true;
    mc_fail(clause(ep, "position"), "refused request (n=%llu) on a buffer with used=%zu offset=%zu left it with used=%zu offset=%zu: the read position %s",
            (unsigned long long)n, used, off, b->used, b->offset,
            b->offset < off ? "moved backwards, octets already framed are unread again"
                            : "is not inside the buffer's content any more");
    return false;
}

/* one call of a memory or buffer entry point on real memory */
static void
run_flat(int k, enum ep ep, int sk, size_t size, size_t used, size_t off, size_t n)
{
    unsigned char *mem = mc_exact(size);
    for (size_t i = 0; i < size; ++i)
        mem[i] = pat(i);
    ByteBuffer b = { mem, size, used, off };
    const unsigned char *pay = mem + off;
    const bool isn = (ep == EP_BUF_ENC_N || ep == EP_BUF_SINK_N);
    const bool ismem = (ep == EP_MEM_ENC || ep == EP_MEM_SINK);
    const size_t want = (isn || ismem) ? n : used - off;
    const char *name = epname[ep];
    bool acc;
    mc_trans(1);
    if (ep == EP_MEM_ENC || ep == EP_BUF_ENC || ep == EP_BUF_ENC_N) {
        LengthPrefixBuffer *lpb = mc_exact(sizeof *lpb);
        memset(lpb, 0, sizeof *lpb);
        int rc;
        if (ep == EP_MEM_ENC)
            rc = X_memory_encode(k, lpb, mem + off, n);
        else if (ep == EP_BUF_ENC)
            rc = X_buffer_encode(k, lpb, &b);
        else
            rc = X_buffer_encode_n(k, lpb, &b, n);
        acc = judge_obj(name, k, want, pay, lpb->prefix_, &lpb->prefix, &lpb->payload, rc);
        free(lpb);
    } else {
        struct rec r;
        rec_init(&r, want + 10u);
        Sink s;
        rec_sink(&s, &r, sk);
        ssize_t rc;
        if (ep == EP_MEM_SINK)
            rc = X_memory_to_sink(k, &s, mem + off, n);
        else if (ep == EP_BUF_SINK)
            rc = X_buffer_to_sink(k, &s, &b);
        else
            rc = X_buffer_to_sink_n(k, &s, &b, n);
        acc = judge_sink(name, k, want, pay, &r, rc);
        free(r.buf);
    }
    if (acc && isn)
        check_advance(name, &b, mem, size, used, off, n);
    else if (isn && !mc.cur_failed)
        check_position(name, &b, mem, size, used, off, n);
    free(mem);
}

static void
enc_small(size_t S)
{
    for (int k = 0; k < NKINDS; ++k) {
        for (size_t len = 1; len <= S; ++len)
            for (int v = 0; v < 3; ++v) {
                const enum ep ep = v ? EP_MEM_SINK : EP_MEM_ENC;
                const int sk = v ? v - 1 : 2;
                if (!mc_case("enc-small k=%s ep=%s sink=%s len=%zu", kname[k], epname[ep], skname[sk], len))
                    continue;
                run_flat(k, ep, sk, len, len, 0, len);
                mc_end(true, verdict_outcome(ref_verdict(k, len, v != 0), 0));
            }
        for (size_t size = 1; size <= S; ++size)
            for (size_t used = 1; used <= size; ++used)
                for (size_t off = 0; off < used; ++off) {
                    const size_t rest = used - off;
                    for (size_t n = 0; n <= rest; ++n)
                        for (int v = 0; v < 3; ++v) {
                            /* n == 0 stands for the entry points without n */
                            const enum ep ep = n ? (v ? EP_BUF_SINK_N : EP_BUF_ENC_N)
                                                 : (v ? EP_BUF_SINK : EP_BUF_ENC);
                            const int sk = v ? v - 1 : 2;
                            if (!mc_case("enc-small k=%s ep=%s sink=%s size=%zu used=%zu off=%zu n=%zu",
                                         kname[k], epname[ep], skname[sk], size, used, off, n))
                                continue;
                            run_flat(k, ep, sk, size, used, off, n);
                            mc_end(off > 0 || size - used != rest || (n && n < rest),
                                   verdict_outcome(ref_verdict(k, n ? n : rest, v != 0), 0));
                        }
                }
    }
}

/* ---- the _n entry points asked for more than there is ------------------- */

/* Silent comparisons (no mc_fail): is what came out the frame of exactly the
 * `len` octets at `pay`? */
static bool
obj_is_frame(int k, uint64_t len, const unsigned char *pay, const LengthPrefixBuffer *lpb)
{
    unsigned char pfx[10];
    const size_t pl = ref_prefix(k, len, pfx);
    const ByteBuffer *p = &lpb->prefix, *q = &lpb->payload;
    if (p->data < lpb->prefix_ || p->data > lpb->prefix_ + sizeof lpb->prefix_
        || p->used > (size_t)(lpb->prefix_ + sizeof lpb->prefix_ - p->data) || p->offset > p->used)
        return false;
    if (p->used - p->offset != pl || memcmp(p->data + p->offset, pfx, pl) != 0)
        return false;
    return q->offset <= q->used && q->used - q->offset == len && q->data + q->offset == pay;
}

static bool
sink_is_frame(int k, uint64_t len, const unsigned char *pay, const struct rec *r, ssize_t rc)
{
    unsigned char pfx[10];
    const size_t pl = ref_prefix(k, len, pfx);
    return !r->overflow && r->n == pl + len && memcmp(r->buf, pfx, pl) == 0
        && memcmp(r->buf + pl, pay, (size_t)len) == 0 && rc >= 0 && (uint64_t)rc == pl + len;
}

/* n is beyond the kind's maximum and beyond the buffer's unread content.  The
 * statement speaks of "its first n unread octets" and has no sentence for an n
 * that exceeds what the buffer holds, so two answers are admissible:
 *   (a) the request is refused (any negative code) with nothing emitted; the
 *       read position stays inside [old offset, used] (clause *-position);
 *   (b) the entry point frames what there is (an "at most n" reading): exactly
 *       the `rest` unread octets -- prefix = rest in the kind's encoding,
 *       payload = those octets, total reported, buffer advanced by rest --
 *       provided rest is a length the kind can frame.  With rest == 0 that is a
 *       frame of no octets, which the statement (lengths from 1) does not
 *       describe: only the read position is judged then.
 * Anything else -- an accepting return that is not that frame -- is neither a
 * refusal of the over-long request nor a frame of designated octets.
 * After (a) a second slice is taken off the same buffer from wherever the read
 * position is now: it has to carry the first unread octets, as always. */
static void
run_refuse_n(int k, enum ep ep, size_t size, size_t used, size_t off, uint64_t n)
{
    unsigned char *mem = mc_exact(size);
    for (size_t i = 0; i < size; ++i)
        mem[i] = pat(i);
    ByteBuffer b = { mem, size, used, off };
    const char *name = epname[ep];
    const bool sinky = (ep == EP_BUF_SINK_N);
    for (int round = 0; round < 2; ++round) {
        /* round 0: the over-long request; round 1: everything that is unread now */
        const size_t o = b.offset;
        const size_t rest = used - o;
        const uint64_t want = round ? rest : n;
        mc_trans(1);
        bool acc = false, atmost = false, frame = false;
        ssize_t rc;
        size_t emitted = 0;
        if (!sinky) {
            LengthPrefixBuffer *lpb = mc_exact(sizeof *lpb);
            memset(lpb, 0, sizeof *lpb);
            rc = X_buffer_encode_n(k, lpb, &b, (size_t)want);
            if (round == 0 && rc >= 0) {
                atmost = true;
                frame = obj_is_frame(k, rest, mem + o, lpb);
            } else {
                acc = judge_obj(name, k, want, mem + o, lpb->prefix_, &lpb->prefix, &lpb->payload, (int)rc);
            }
            free(lpb);
        } else {
            struct rec r;
            rec_init(&r, round ? (size_t)want + 10u : rest + 16u);
            Sink s;
            rec_sink(&s, &r, 0);
            rc = X_buffer_to_sink_n(k, &s, &b, (size_t)want);
            if (round == 0 && rc >= 0) {
                atmost = true;
                frame = sink_is_frame(k, rest, mem + o, &r, rc);
                emitted = r.n + r.overflow;
                mc_log_hex("emitted-head", r.buf, r.n < 24 ? r.n : 24);
            } else {
                acc = judge_sink(name, k, want, mem + o, &r, rc);
            }
            free(r.buf);
        }
        if (atmost) {
            mc_log("%s rc=%zd emitted=%zu: the over-long request was not refused; %zu octets were unread", name, rc, emitted, rest);
            if (rest == 0) {
                mc_log("nothing was unread: a frame of no octets is outside the statement, only the read position is judged");
                check_position(name, &b, mem, size, used, off, n);
            } else if (ref_verdict(k, rest, sinky) == V_ACCEPT && frame) {
                check_advance(name, &b, mem, size, used, o, rest);
            } else {
                mc_fail(clause(name, "refuses-overmax"), "n=%llu is beyond the %s maximum and beyond the %zu unread octets: returned %zd, which is neither a refusal nor the frame of exactly the %zu unread octets",
                        (unsigned long long)n, kname[k], rest, rc, rest);
            }
            break; /* an at-most frame leaves nothing for a second slice */
        }
        if (mc.cur_failed)
            break;
        if (round == 0) {
            if (acc || !check_position(name, &b, mem, size, used, off, n))
                break;
            if (b.offset == used)
                break; /* nothing left for a second slice */
        } else if (acc) {
            check_advance(name, &b, mem, size, used, o, (size_t)want);
        }
    }
    free(mem);
}

static size_t
refuse_family(uint64_t *out, size_t size)
{
    size_t c = 0;
    out[c++] = 256u;
    out[c++] = 65536u;
    out[c++] = 1ull << 31;
    for (uint64_t v = (1ull << 32) - size - 1u; v <= (1ull << 32) + 1u; ++v)
        out[c++] = v;
    for (uint64_t v = SSZ_MAX - size - 1u; v <= SSZ_MAX + 2u; ++v)
        out[c++] = v;
    for (uint64_t d = size + 1u;; --d) {
        out[c++] = UINT64_MAX - d;
        if (d == 0)
            break;
    }
    return c;
}

static void
enc_refuse_n(size_t S)
{
    uint64_t ns[64];
    for (int k = 0; k < NKINDS; ++k)
        for (size_t size = 1; size <= S; ++size) {
            const size_t nn = refuse_family(ns, size);
            for (size_t used = 0; used <= size; ++used)
                for (size_t off = 0; off <= used; ++off)
                    for (int v = 0; v < 2; ++v) {
                        const enum ep ep = v ? EP_BUF_SINK_N : EP_BUF_ENC_N;
                        for (size_t i = 0; i < nn; ++i) {
                            if (ns[i] <= used - off || ref_verdict(k, ns[i], v != 0) != V_REFUSE)
                                continue; /* not certainly refused: not in this family */
                            if (!mc_case("enc-refuse-n k=%s ep=%s size=%zu used=%zu off=%zu n=%llu then-the-rest", kname[k],
                                         epname[ep], size, used, off, (unsigned long long)ns[i]))
                                continue;
                            run_refuse_n(k, ep, size, used, off, ns[i]);
                            mc_end(true, off > 0 ? (used > off ? "refuse-n-then-slice" : "refuse-n-offset") : "refuse-n");
                        }
                    }
        }
}

/* ---- sink encoders into sinks that do not take everything at once -------- */
static const char *
run_sinkbeh(int k, enum ep ep, int sk, size_t len, const uint8_t *script, int slen)
{
    /* layouts: buffer with one consumed octet in front (and two unread octets
     * behind the slice for _n); chunk list = inactive chunk, first half behind a
     * consumed octet, empty chunk, second half */
    const size_t h2 = len / 2, h1 = len - h2;
    unsigned char *mem = mc_exact(len + 4u);
    for (size_t i = 0; i < len + 4u; ++i)
        mem[i] = pat(i);
    unsigned char *c0 = mc_exact(2), *c2 = mc_exact(2), *c3 = mc_exact(h2 ? h2 : 1);
    c0[0] = c0[1] = 0xcf;
    c2[0] = c2[1] = 0xce;
    for (size_t i = 0; i < h2; ++i)
        c3[i] = pat(1u + h1 + i);
    struct bsink bs;
    memset(&bs, 0, sizeof bs);
    rec_init(&bs.r, len + 10u);
    bs.script = script;
    bs.slen = slen;
    bs.budget = 4 * (long)(len + 10u) + 4 * slen + 16;
    Sink s;
    if (sk)
        octet_sink_init(&s, bs_octet, &bs);
    else
        chunk_sink_init(&s, bs_chunk, &bs);
    const char *name = epname[ep];
    const unsigned char *pay = mem + 1;
    unsigned char *joined = NULL;
    ssize_t rc;
    mc_trans(1);
    if (ep == EP_MEM_SINK) {
        rc = X_memory_to_sink(k, &s, mem + 1, len);
    } else if (ep == EP_BUF_SINK) {
        ByteBuffer b = { mem, len + 2u, len + 1u, 1 };
        rc = X_buffer_to_sink(k, &s, &b);
    } else if (ep == EP_BUF_SINK_N) {
        ByteBuffer b = { mem, len + 4u, len + 3u, 1 };
        rc = X_buffer_to_sink_n(k, &s, &b, len);
        if (rc >= 0 && !bs.over)
            check_advance(name, &b, mem, len + 4u, len + 3u, 1, len);
    } else {
        ByteBuffer arr[4] = { { c0, 2, 2, 1 }, { mem, 1u + h1, 1u + h1, 1 }, { c2, 2, 1, 1 }, { c3, h2 ? h2 : 1, h2, 0 } };
        ByteChunks bc = { h2 ? 4u : 3u, 1, arr };
        joined = mc_exact(len);
        memcpy(joined, mem + 1, h1);
        memcpy(joined + h1, c3, h2);
        pay = joined;
        rc = X_chunks_to_sink(k, &s, &bc);
    }
    mc_log("sink: %ld calls, answered 0 %d times, EINTR/EAGAIN %d times, took part of a request %d times", bs.r.calls,
           bs.zeros, bs.intrs, bs.partials);
    if (bs.over)
        mc_fail("C13/hang", "%s: sink call budget of %ld exceeded", name, bs.budget);
    else if (!mc.cur_failed)
        judge_sink(name, k, len, pay, &bs.r, rc);
    const int kinds = (bs.zeros > 0) + (bs.intrs > 0) + (bs.partials > 0);
    const char *outcome = kinds > 1 ? "encbeh-mixed" : bs.zeros ? "encbeh-zero-return" : bs.intrs ? "encbeh-interruption"
        : bs.partials ? "encbeh-partial" : "encbeh-all-at-once";
    free(bs.r.buf);
    free(joined);
    free(mem);
    free(c0);
    free(c2);
    free(c3);
    return outcome;
}

struct sben {
    int k, sk, slots;
    enum ep ep;
    size_t len;
    uint8_t script[8];
    int d;
};

static void
sben_rec(struct sben *e, int start, int remaining)
{
    if (remaining == 0) {
        if (!mc_would_run()) {
            mc_skip_case();
            return;
        }
        char sd[64];
        size_t l = 0;
        sd[0] = 0;
        for (int i = 0; i < e->slots; ++i)
            l += (size_t)snprintf(sd + l, sizeof sd - l, "%s%s", i ? " " : "", sbname[e->script[i]]);
        if (!mc_case("enc-sinkbeh dev=%d k=%s ep=%s sink=%s len=%zu answers=[%s]", e->d, kname[e->k], epname[e->ep],
                     skname[e->sk], e->len, sd))
            return;
        const char *outcome = run_sinkbeh(e->k, e->ep, e->sk, e->len, e->script, e->slots);
        mc_end(strcmp(outcome, "encbeh-all-at-once") != 0, outcome);
        return;
    }
    for (int pos = start; pos + remaining <= e->slots; ++pos) {
        for (int t = SB_ALL + 1; t < SB__N; ++t) {
            if (e->sk && (t == SB_ONE || t == SB_KM1))
                continue; /* an octet sink is given one octet per call */
            e->script[pos] = (uint8_t)t;
            sben_rec(e, pos + 1, remaining - 1);
        }
        e->script[pos] = SB_ALL;
    }
}

static void
enc_sinkbeh(size_t maxlen, int slots_chunk, int slots_octet, int dmax)
{
    static const enum ep eps[4] = { EP_MEM_SINK, EP_BUF_SINK, EP_BUF_SINK_N, EP_CHUNKS_SINK };
    for (int d = 0; d <= dmax; ++d)
        for (int k = 0; k < NKINDS; ++k)
            for (int e = 0; e < 4; ++e)
                for (int sk = 0; sk < 2; ++sk)
                    for (size_t len = 1; len <= maxlen; ++len) {
                        struct sben en;
                        memset(&en, 0, sizeof en);
                        en.k = k;
                        en.sk = sk;
                        en.ep = eps[e];
                        en.len = len;
                        en.slots = sk ? slots_octet : slots_chunk;
                        en.d = d;
                        sben_rec(&en, 0, d);
                    }
}

/* ---- chunk lists --------------------------------------------------------- */
#define MAXCH 5
struct chunkspec {
    size_t nch, active;
    size_t rest[MAXCH], lead[MAXCH], slack[MAXCH];
};

static size_t
chunks_total(const struct chunkspec *c)
{
    size_t t = 0;
    for (size_t i = c->active; i < c->nch; ++i)
        t += c->rest[i];
    return t;
}

static void
run_chunks(int k, enum ep ep, int sk, const struct chunkspec *c)
{
    ByteBuffer *arr = mc_exact(c->nch * sizeof *arr);
    ByteBuffer *copy = mc_exact(c->nch * sizeof *arr);
    const size_t total = chunks_total(c);
    unsigned char *expect = mc_exact(total);
    size_t e = 0;
    for (size_t i = 0; i < c->nch; ++i) {
        const size_t size = c->lead[i] + c->rest[i] + c->slack[i];
        unsigned char *m = mc_exact(size);
        for (size_t j = 0; j < size; ++j)
            m[j] = pat(40u * i + j);
        arr[i] = (ByteBuffer){ m, size, c->lead[i] + c->rest[i], c->lead[i] };
        if (i >= c->active) {
            memcpy(expect + e, m + c->lead[i], c->rest[i]);
            e += c->rest[i];
        }
    }
    memcpy(copy, arr, c->nch * sizeof *arr);
    mc_trans(1);
    if (ep == EP_CHUNKS_USE) {
        LengthPrefixChunks *lpc = mc_exact(sizeof *lpc);
        memset(lpc, 0, sizeof *lpc);
        lpc->payload = (ByteChunks){ c->nch, c->active, arr };
        const int rc = X_chunks_use(k, lpc);
        const bool acc = judge_obj(epname[ep], k, total, NULL, lpc->prefix_, &lpc->prefix, NULL, rc);
        if (acc) {
            /* The object has to designate exactly the octets it was given: the
             * sequence of non-empty (address, length) pieces of its active
             * chunks.  How the list represents them (which chunk is the first
             * active one, data/offset split, size fields) is left open. */
            const ByteChunks *pl = &lpc->payload;
            bool same = pl->chunk >= arr && pl->chunk <= arr + c->nch
                && pl->chunks <= (size_t)(arr + c->nch - pl->chunk) && pl->active <= pl->chunks;
            size_t j = c->active; /* next expected piece in the original list */
            size_t seen = 0;
            for (size_t i = same ? pl->active : 0; same && i < pl->chunks; ++i) {
                const ByteBuffer *q = pl->chunk + i;
                if (q->offset > q->used) {
                    same = false;
                    break;
                }
                const size_t rest = q->used - q->offset;
                if (rest == 0)
                    continue;
                while (j < c->nch && copy[j].used == copy[j].offset)
                    ++j;
                same = j < c->nch && q->data + q->offset == copy[j].data + copy[j].offset
                    && rest == copy[j].used - copy[j].offset;
                ++j;
                seen += rest;
            }
            mc_log("chunk list after: chunks=%zu active=%zu designates %zu octets", pl->chunks, pl->active, seen);
            if (!same || seen != total)
                mc_fail(clause(epname[ep], "payload"), "the chunk list of the object no longer designates the same octets");
        }
        free(lpc);
    } else {
        struct rec r;
        rec_init(&r, total + 10u);
        Sink s;
        rec_sink(&s, &r, sk);
        ByteChunks bc = { c->nch, c->active, arr };
        const ssize_t rc = X_chunks_to_sink(k, &s, &bc);
        judge_sink(epname[ep], k, total, expect, &r, rc);
        free(r.buf);
    }
    for (size_t i = 0; i < c->nch; ++i)
        free(copy[i].data);
    free(arr);
    free(copy);
    free(expect);
}

static void
chunks_desc(const struct chunkspec *c, char *buf, size_t n)
{
    size_t l = 0;
    buf[0] = 0;
    for (size_t i = 0; i < c->nch && l + 40 < n; ++i)
        l += (size_t)snprintf(buf + l, n - l, "%s(lead=%zu,rest=%zu,slack=%zu)", i ? "," : "",
                              c->lead[i], c->rest[i], c->slack[i]);
}

static void
chunks_cases(int k, const char *fam, const struct chunkspec *c, int outfam)
{
    bool interesting = c->nch > 1 || c->active > 0;
    for (int v = 0; v < 3; ++v) {
        const enum ep ep = v ? EP_CHUNKS_SINK : EP_CHUNKS_USE;
        const int sk = v ? v - 1 : 2;
        char d[260] = "";
        if (mc_would_run())
            chunks_desc(c, d, sizeof d);
        if (!mc_case("%s k=%s ep=%s sink=%s active=%zu chunks=[%s]", fam, kname[k], epname[ep], skname[sk],
                     c->active, d))
            continue;
        run_chunks(k, ep, sk, c);
        mc_end(interesting, verdict_outcome(ref_verdict(k, chunks_total(c), v != 0), outfam));
    }
}

static void
enc_chunks(size_t C, size_t A)
{
    for (int k = 0; k < NKINDS; ++k)
        for (size_t nch = 1; nch <= C; ++nch) {
            size_t combos = 1;
            for (size_t i = 0; i < nch; ++i)
                combos *= 15u;
            for (size_t code = 0; code < combos; ++code) {
                struct chunkspec c;
                memset(&c, 0, sizeof c);
                c.nch = nch;
                size_t x = code;
                for (size_t i = 0; i < nch; ++i) {
                    const size_t cc = 1u + x % 15u; /* 1..15: never lead=rest=slack=0 */
                    x /= 15u;
                    c.rest[i] = cc & 3u;
                    c.lead[i] = (cc >> 2) & 1u;
                    c.slack[i] = (cc >> 3) & 1u;
                }
                for (c.active = 0; c.active <= A && c.active < nch; ++c.active) {
                    if (chunks_total(&c) == 0)
                        continue; /* zero-length payloads are outside the statement */
                    chunks_cases(k, "chunks", &c, 1);
                }
            }
        }
}

/* ---- long payloads on real memory ---------------------------------------- */
static size_t
long_len(size_t i)
{
    return i < 1100 ? i + 1 : 65534u + (i - 1100);
}
#define NLONG 1103

static void
enc_long(void)
{
    for (int k = 0; k < NKINDS; ++k)
        for (size_t li = 0; li < NLONG; ++li) {
            const size_t len = long_len(li);
            for (int e = 0; e < 6; ++e) {
                static const enum ep eps[6] = { EP_MEM_ENC, EP_MEM_SINK, EP_BUF_ENC, EP_BUF_SINK,
                                                EP_BUF_ENC_N, EP_BUF_SINK_N };
                const enum ep ep = eps[e];
                const bool sinky = (e & 1);
                for (int lay = 0; lay < 2; ++lay) {
                    if (e < 2 && lay)
                        continue;
                    const int sk = sinky ? ((len <= 1100 && lay) ? 1 : 0) : 2;
                    const bool isn = e >= 4;
                    const size_t off = lay ? 3 : 0;
                    const size_t used = off + len + ((lay && isn) ? 2 : 0);
                    const size_t size = used + (lay ? 5 : 0);
                    if (!mc_case("enc-long k=%s ep=%s sink=%s size=%zu used=%zu off=%zu n=%zu",
                                 kname[k], epname[ep], skname[sk], size, used, off, len))
                        continue;
                    run_flat(k, ep, sk, size, used, off, len);
                    mc_end(true, verdict_outcome(ref_verdict(k, len, sinky), 0));
                }
            }
            /* chunk lists: A = two halves; B = inactive, half, empty, half */
            for (int lay = 0; lay < 2; ++lay) {
                struct chunkspec c;
                memset(&c, 0, sizeof c);
                const size_t h2 = len / 2, h1 = len - h2;
                if (lay == 0) {
                    c.nch = h2 ? 2 : 1;
                    c.rest[0] = h1;
                    c.rest[1] = h2;
                    c.lead[1] = 2;
                } else {
                    c.active = 1;
                    c.rest[0] = 2;
                    c.rest[1] = h1;
                    c.lead[1] = 1;
                    c.slack[1] = 3;
                    c.lead[2] = 1;
                    c.slack[2] = 1;
                    c.rest[3] = h2;
                    c.nch = h2 ? 4 : 3;
                }
                chunks_cases(k, "chunks-long", &c, 1);
            }
        }
}

/* ---- maxima: fake buffers over small real blocks, segment sink ----------- */
struct xseg { int blk; uint64_t off, len; };

static void
encmax_cap(void)
{
    static bool said;
    if (!said)
        mc_cap("a sink encoder hands its sink payload octets from memory that is not the caller's (by value / staging buffer): fake-extent cases (enc-max, enc-sum) not run / not judged");
    said = true;
}

/* returns false when the case could not be followed (not judged) */
static bool
judge_seg(const char *ep, int k, uint64_t n, const struct xseg *xs, int nxs,
          const struct seg *g, ssize_t rc)
{
    unsigned char pfx[10];
    const size_t pl = ref_prefix(k, n, pfx);
    const enum verdict v = ref_verdict(k, n, true);
    mc_log("%s rc=%zd sink calls=%ld prefix octets=%zu segments=%d", ep, rc, g->calls, g->npfx, g->ns);
    mc_log_hex("prefix", g->pfx, g->npfx);
    for (int i = 0; i < g->ns; ++i)
        mc_log("segment %d: block %d offset %zu length %zu", i, g->s[i].blk, g->s[i].off, g->s[i].len);
    if (v == V_REFUSE || (v == V_OPEN && rc < 0)) {
        if (rc >= 0)
            mc_fail(clause(ep, "refuses-overmax"), "length %llu beyond the %s maximum returned %zd",
                    (unsigned long long)n, kname[k], rc);
        else if (g->calls != 0)
            mc_fail(clause(ep, "refuses-overmax"), "refused (rc=%zd) after %ld sink calls", rc, g->calls);
        return true;
    }
    if (g->gave_up && !g->bad_pfx && g->npfx == pl && memcmp(g->pfx, pfx, pl) == 0 && !g->bad_content && !g->too_many
        && g->ns >= 1 && g->ns <= nxs) {
        /* the sink stopped serving after SEG_BUDGET calls: if everything that
         * arrived until then is the designated payload, in order, as far as it
         * got, the implementation just moves little per call and the case
         * cannot be followed to its end */
        bool sofar = true;
        for (int i = 0; sofar && i < g->ns; ++i)
            sofar = g->s[i].blk == xs[i].blk && g->s[i].off == xs[i].off
                && (i + 1 < g->ns ? g->s[i].len == xs[i].len : g->s[i].len <= xs[i].len);
        if (sofar) {
            mc_log("not judged: %ld sink calls moved a prefix of the payload only", g->calls);
            return true;
        }
    }
    if ((g->foreign || g->npfx > pl) && g->npfx >= pl && memcmp(g->pfx, pfx, pl) == 0 && (rc >= 0 || g->gave_up)) {
        /* the right prefix, then octets from memory that is not the caller's:
         * payload handed over by value or from a staging buffer */
        mc_log("not judged: octets behind the prefix were handed to the sink from memory that is not the caller's");
        encmax_cap();
        return false;
    }
    if (rc < 0) {
        mc_fail(clause(ep, "accepts"), "length %llu (%s) refused rc=%zd after %ld sink calls",
                (unsigned long long)n, kname[k], rc, g->calls);
        return true;
    }
    if (g->bad_pfx || g->npfx != pl || memcmp(g->pfx, pfx, pl) != 0) {
        mc_fail(clause(ep, "prefix"), "emitted prefix (%zu octets) is not the %s encoding of %llu",
                g->npfx, kname[k], (unsigned long long)n);
        return true;
    }
    bool same = !g->gave_up && !g->bad_content && !g->too_many && g->ns == nxs;
    for (int i = 0; same && i < nxs; ++i)
        same = g->s[i].blk == xs[i].blk && g->s[i].off == xs[i].off && g->s[i].len == xs[i].len;
    if (!same) {
        mc_fail(clause(ep, "payload"), "emitted regions differ from the designated ones (first: block %d offset %zu length %zu; expected block %d offset %llu length %llu)",
                g->ns ? g->s[0].blk : -1, g->ns ? g->s[0].off : 0, g->ns ? g->s[0].len : 0,
                xs[0].blk, (unsigned long long)xs[0].off, (unsigned long long)xs[0].len);
        return true;
    }
    if ((uint64_t)rc != pl + n)
        mc_fail(clause(ep, "total"), "returned %zd, prefix+payload is %llu", rc, (unsigned long long)(pl + n));
    return true;
}

#define REALBLK 16u

/* The fake-extent families hand ACCEPTING sink encoders a buffer that claims
 * 2^31 and more octets over 16 real ones, and recognise the payload by the
 * pointer the sink is handed.  Both rest on the encoder passing the caller's
 * memory straight to its sink, which the statement does not say: an encoder that
 * reads its own input (staging the payload through a private buffer, emitting
 * short pieces octet by octet) is legitimate, would run off the 16 real octets
 * and could not be followed by address.  So, like dec-huge, the families are
 * gated by a probe on real memory: the four sink encoders on a 300-octet payload
 * (chunk list: 300 + 2 octets), 4 kinds; if any sink call that carries octets
 * behind the prefix names memory outside the caller's blocks, the accepting
 * sink-encoder cases are numbered but not run (class encmax-not-run, a cap).
 * Refusals (nothing is read before a refusal) and the object encoders (views,
 * nothing is read) still run. */
struct eprobe {
    const unsigned char *lo[2];
    size_t len[2];
    size_t pl, seen;
    long calls;
    bool foreign;
};

static ssize_t
eprobe_chunk(void *drv, const void *data, size_t n)
{
    struct eprobe *e = drv;
    const unsigned char *p = data;
    if (++e->calls > 4096)
        return -EIO;
    if (n != 0 && e->seen + n > e->pl) {
        bool inside = false;
        for (int b = 0; b < 2; ++b)
            if (e->lo[b] != NULL && p >= e->lo[b] && n <= e->len[b] && p <= e->lo[b] + (e->len[b] - n))
                inside = true;
        if (!inside)
            e->foreign = true;
    }
    e->seen += n;
    return (ssize_t)n;
}

static bool encmax_runnable = true;

static void
encmax_probe(void)
{
    static const int ks[4] = { K_VAR, K_LE32, K_BE32, K_VARW };
    const bool was_active = mc.active;
    mc.active = false;
    const size_t L = 300;
    unsigned char *mem = mc_exact(L + 2u), *c1 = mc_exact(2);
    for (size_t i = 0; i < L + 2u; ++i)
        mem[i] = pat(i);
    c1[0] = pat(7);
    c1[1] = pat(8);
    for (int ki = 0; ki < 4 && encmax_runnable; ++ki)
        for (int ep = EP_MEM_SINK; ep <= EP_CHUNKS_SINK && encmax_runnable; ++ep) {
            const int k = ks[ki];
            struct eprobe e;
            memset(&e, 0, sizeof e);
            unsigned char tmp[10];
            e.lo[0] = mem;
            e.len[0] = L + 2u;
            Sink s;
            chunk_sink_init(&s, eprobe_chunk, &e);
            ByteBuffer b = { mem, L + 2u, L + 1u, 1 };
            if (ep == EP_MEM_SINK) {
                e.pl = ref_prefix(k, L, tmp);
                (void)X_memory_to_sink(k, &s, mem + 1, L);
            } else if (ep == EP_BUF_SINK) {
                e.pl = ref_prefix(k, L, tmp);
                (void)X_buffer_to_sink(k, &s, &b);
            } else if (ep == EP_BUF_SINK_N) {
                b.used = L + 2u;
                e.pl = ref_prefix(k, L, tmp);
                (void)X_buffer_to_sink_n(k, &s, &b, L);
            } else {
                ByteBuffer arr[2] = { { mem, L + 2u, L + 1u, 1 }, { c1, 2, 2, 0 } };
                ByteChunks bc = { 2, 0, arr };
                e.lo[1] = c1;
                e.len[1] = 2;
                e.pl = ref_prefix(k, L + 2u, tmp);
                (void)X_chunks_to_sink(k, &s, &bc);
            }
            if (e.foreign)
                encmax_runnable = false;
        }
    free(mem);
    free(c1);
    mc.active = was_active;
    if (!encmax_runnable)
        encmax_cap();
}

/* true: this case is one the probe's finding forbids to run */
static bool
encmax_gated(int k, enum ep ep, uint64_t n)
{
    return !encmax_runnable && ep >= EP_MEM_SINK && ref_verdict(k, n, true) != V_REFUSE;
}

static bool
run_max(int k, enum ep ep, uint64_t n, int variant, uint64_t first_answer)
{
    bool judged = true;
    unsigned char *blk[SEG_BLOCKS];
    struct seg g;
    memset(&g, 0, sizeof g);
    g.nblk = SEG_BLOCKS;
    g.first_answer = first_answer;
    for (int b = 0; b < SEG_BLOCKS; ++b) {
        blk[b] = mc_exact(REALBLK);
        for (size_t i = 0; i < REALBLK; ++i)
            blk[b][i] = pat(40u * (size_t)b + i);
        g.base[b] = blk[b];
        g.real[b] = REALBLK;
        g.patbase[b] = 40u * (size_t)b;
    }
    Sink s;
    chunk_sink_init(&s, seg_chunk, &g);
    const bool roomy = n <= SIZE_MAX - 32u;
    const bool isn = (ep == EP_BUF_ENC_N || ep == EP_BUF_SINK_N);
    const size_t off = roomy ? 2 : 0;
    const size_t used = off + n + ((roomy && isn) ? 3 : 0);
    const size_t size = used + (roomy ? 5 : 0);
    ByteBuffer b = { blk[0], size, used, off };
    struct xseg xs[2] = { { 0, off, n }, { 0, 0, 0 } };
    const char *name = epname[ep];
    mc_trans(1);
    switch (ep) {
    case EP_MEM_ENC: case EP_BUF_ENC: case EP_BUF_ENC_N: {
        LengthPrefixBuffer *lpb = mc_exact(sizeof *lpb);
        memset(lpb, 0, sizeof *lpb);
        int rc;
        if (ep == EP_MEM_ENC)
            rc = X_memory_encode(k, lpb, blk[0] + off, n);
        else if (ep == EP_BUF_ENC)
            rc = X_buffer_encode(k, lpb, &b);
        else
            rc = X_buffer_encode_n(k, lpb, &b, n);
        if (judge_obj(name, k, n, blk[0] + off, lpb->prefix_, &lpb->prefix, &lpb->payload, rc)) {
            if (isn)
                check_advance(name, &b, blk[0], size, used, off, n);
        } else if (isn && !mc.cur_failed) {
            check_position(name, &b, blk[0], size, used, off, n);
        }
        free(lpb);
        break;
    }
    case EP_MEM_SINK: case EP_BUF_SINK: case EP_BUF_SINK_N: {
        ssize_t rc;
        if (ep == EP_MEM_SINK)
            rc = X_memory_to_sink(k, &s, blk[0] + off, n);
        else if (ep == EP_BUF_SINK)
            rc = X_buffer_to_sink(k, &s, &b);
        else
            rc = X_buffer_to_sink_n(k, &s, &b, n);
        judged = judge_seg(name, k, n, xs, 1, &g, rc);
        if (!judged)
            break;
        if (isn && rc >= 0 && ref_verdict(k, n, true) != V_REFUSE)
            check_advance(name, &b, blk[0], size, used, off, n);
        else if (isn && !mc.cur_failed)
            check_position(name, &b, blk[0], size, used, off, n);
        break;
    }
    case EP_CHUNKS_USE: case EP_CHUNKS_SINK: {
        /* inactive(5) | n-2 octets | [empty] | 2 octets */
        ByteBuffer arr[4];
        size_t nch = 0;
        arr[nch++] = (ByteBuffer){ blk[0], 8, 6, 1 };
        arr[nch++] = (ByteBuffer){ blk[1], 1 + (n - 2), 1 + (n - 2), 1 };
        if (variant)
            arr[nch++] = (ByteBuffer){ blk[2], 2, 1, 1 };
        arr[nch++] = (ByteBuffer){ blk[3], 4, 2, 0 };
        xs[0] = (struct xseg){ 1, 1, n - 2 };
        xs[1] = (struct xseg){ 3, 0, 2 };
        if (ep == EP_CHUNKS_USE) {
            LengthPrefixChunks *lpc = mc_exact(sizeof *lpc);
            memset(lpc, 0, sizeof *lpc);
            lpc->payload = (ByteChunks){ nch, 1, arr };
            const int rc = X_chunks_use(k, lpc);
            judge_obj(name, k, n, NULL, lpc->prefix_, &lpc->prefix, NULL, rc);
            free(lpc);
        } else {
            ByteChunks bc = { nch, 1, arr };
            const ssize_t rc = X_chunks_to_sink(k, &s, &bc);
            judged = judge_seg(name, k, n, xs, 2, &g, rc);
        }
        break;
    }
    }
    for (int i = 0; i < SEG_BLOCKS; ++i)
        free(blk[i]);
    return judged;
}

static void
enc_max(void)
{
    encmax_probe();
    static const uint64_t N[] = {
        (1ull << 31) - 1, 1ull << 31, (1ull << 32) - 2, (1ull << 32) - 1, 1ull << 32, (1ull << 32) + 1,
        SSZ_MAX - 10, SSZ_MAX - 1, SSZ_MAX, SSZ_MAX + 1, UINT64_MAX,
    };
    for (int k = 0; k < NKINDS; ++k)
        for (size_t i = 0; i < sizeof N / sizeof *N; ++i)
            for (int ep = 0; ep < 8; ++ep) {
                const bool ch = (ep == EP_CHUNKS_USE || ep == EP_CHUNKS_SINK);
                for (int variant = 0; variant < (ch ? 2 : 1); ++variant) {
                    if (!mc_case("enc-max k=%s ep=%s n=%llu%s", kname[k], epname[ep],
                                 (unsigned long long)N[i], ch ? (variant ? " with-empty-chunk" : " two-chunks") : ""))
                        continue;
                    if (encmax_gated(k, (enum ep)ep, N[i])) {
                        mc_log("not run: the probe found a sink encoder that hands its sink payload octets from memory that is not the caller's");
                        mc_end(false, "encmax-not-run");
                        continue;
                    }
                    if (run_max(k, (enum ep)ep, N[i], variant, 0))
                        mc_end(true, verdict_outcome(ref_verdict(k, N[i], ep >= EP_MEM_SINK), 2));
                    else
                        mc_end(false, "encmax-not-judged");
                }
            }
    /* the same maxima into a sink whose first payload call takes only part of
     * what it is given: a count whose low 32 bits read as a negative number, as
     * -EAGAIN / -EINTR / -EIO, or as 0 */
    static const uint64_t A[] = { 1, 1ull << 31, (1ull << 32) - EAGAIN, (1ull << 32) - EINTR, (1ull << 32) - EIO, 1ull << 32 };
    for (int k = 0; k < NKINDS; ++k)
        for (size_t i = 0; i < sizeof N / sizeof *N; ++i)
            for (int ep = EP_MEM_SINK; ep < 8; ++ep)
                for (size_t a = 0; a < sizeof A / sizeof *A; ++a) {
                    /* chunk lists: the first payload chunk holds n-2 octets */
                    if (ref_verdict(k, N[i], true) != V_ACCEPT || A[a] + 2 >= N[i])
                        continue;
                    if (!mc_case("enc-max k=%s ep=%s n=%llu first-sink-answer=%llu", kname[k], epname[ep],
                                 (unsigned long long)N[i], (unsigned long long)A[a]))
                        continue;
                    if (encmax_gated(k, (enum ep)ep, N[i])) {
                        mc_log("not run: the probe found a sink encoder that hands its sink payload octets from memory that is not the caller's");
                        mc_end(false, "encmax-not-run");
                        continue;
                    }
                    if (run_max(k, (enum ep)ep, N[i], 0, A[a]))
                        mc_end(true, "encmax-partial-sink");
                    else
                        mc_end(false, "encmax-not-judged");
                }
}
/* ------------------------------------------------------------------------ */
/* Decoders                                                                  */
/* ------------------------------------------------------------------------ */

enum dec { D_MEM, D_BUF, D_SINK };
static const char *const decname[] = { "memory_from_source", "buffer_from_source", "decode_source_to_sink" };
enum srckind { SRC_CHUNK, SRC_OCTET };

static void
make_source(Source *s, struct src *drv, enum srckind sk)
{
    if (sk == SRC_OCTET)
        octet_source_init(s, src_octet, drv);
    else
        chunk_source_init(s, src_chunk, drv);
}

/* frame f of a stream: prefix ++ pat(57 f + i) */
static size_t
put_frame(unsigned char *out, int k, size_t len, size_t f)
{
    const size_t pl = ref_prefix(k, len, out);
    for (size_t i = 0; i < len; ++i)
        out[pl + i] = pat(57u * f + i);
    return pl + len;
}

static bool
payload_is(const unsigned char *p, size_t len, size_t f)
{
    for (size_t i = 0; i < len; ++i)
        if (p[i] != pat(57u * f + i))
            return false;
    return true;
}

/* one frame, one destination of capacity cap (buffer: used/offset before the
 * call are bused/boff and size = bused + cap) */
static void
run_dec(int k, enum dec d, size_t len, size_t cap, size_t bused, size_t boff, enum srckind sk)
{
    unsigned char *stream = mc_exact(len + 10u);
    const size_t sl = put_frame(stream, k, len, 0);
    struct src drv;
    src_init(&drv, stream, sl, NULL);
    Source src;
    make_source(&src, &drv, sk);
    const char *name = decname[d];
    const bool room = len <= cap;
    mc_trans(1);
    if (d == D_MEM) {
        unsigned char *dst = mc_exact(cap);
        memset(dst, 0xee, cap);
        const ssize_t rc = X_memory_from_source(k, &src, dst, cap);
        mc_log("%s rc=%zd source consumed=%zu of %zu", name, rc, drv.pos, sl);
        mc_log_hex("destination-head", dst, cap < 24 ? cap : 24);
        if (room) {
            if (rc < 0 || (size_t)rc != len || !payload_is(dst, len, 0))
                mc_fail(clause(name, "returns-payload"), "room for %zu, frame of %zu: rc=%zd, destination %s the payload",
                        cap, len, rc, (rc >= 0 && payload_is(dst, len, 0)) ? "holds" : "does not hold");
        } else if (rc != -ENOMEM) {
            mc_fail(clause(name, "enomem"), "room for %zu, frame of %zu: rc=%zd, expected out-of-memory (%d)",
                    cap, len, rc, -ENOMEM);
        }
        free(dst);
    } else if (d == D_BUF) {
        const size_t size = bused + cap;
        unsigned char *mem = mc_exact(size);
        for (size_t i = 0; i < size; ++i)
            mem[i] = old(i);
        ByteBuffer b = { mem, size, bused, boff };
        const ssize_t rc = X_buffer_from_source(k, &src, &b);
        mc_log("%s rc=%zd buffer after: used=%zu offset=%zu", name, rc, b.used, b.offset);
        mc_log_hex("buffer-head", mem, size < 24 ? size : 24);
        if (room) {
            bool kept = true;
            for (size_t i = 0; i < bused; ++i)
                kept = kept && mem[i] == old(i);
            if (rc < 0 || (size_t)rc != len)
                mc_fail(clause(name, "returns-payload"), "room for %zu, frame of %zu: rc=%zd", cap, len, rc);
            else if (b.data != mem || b.size != size || b.used != bused + len || b.offset != boff || !kept
                     || !payload_is(mem + bused, len, 0))
                mc_fail(clause(name, "appends"), "buffer (size=%zu used=%zu offset=%zu) after a frame of %zu: used=%zu offset=%zu, old content %s, payload %s the old fill mark",
                        size, bused, boff, len, b.used, b.offset, kept ? "kept" : "overwritten",
                        payload_is(mem + bused, len, 0) ? "at" : "not at");
        } else if (rc != -ENOMEM) {
            mc_fail(clause(name, "enomem"), "room for %zu, frame of %zu: rc=%zd, expected out-of-memory (%d)",
                    cap, len, rc, -ENOMEM);
        }
        free(mem);
    } else {
        struct rec r;
        cap_init(&r, cap);
        Sink s;
        chunk_sink_init(&s, cap_chunk, &r);
        const ssize_t rc = X_decode_source_to_sink(k, &src, &s);
        mc_log("%s rc=%zd sink holds %zu of capacity %zu, source consumed=%zu of %zu", name, rc, r.n, cap, drv.pos, sl);
        if (room) {
            if (rc < 0 || r.n != len || !payload_is(r.buf, len, 0))
                mc_fail(clause(name, "returns-payload"), "sink with room for %zu, frame of %zu: rc=%zd, sink holds %zu octets",
                        cap, len, rc, r.n);
        } else if (rc >= 0 || r.n > cap) {
            /* whether a sink has room is the sink's answer; it reaches the caller
             * through the plumbing of endpoints/core.c, whose error code the
             * statement does not fix (C17 admits any negative code there): the
             * failure has to be reported and nothing delivered beyond the room */
            mc_fail(clause(name, "enomem"), "sink with room for %zu, frame of %zu: rc=%zd, sink holds %zu octets; expected a failure (negative code) and nothing beyond the sink's room",
                    cap, len, rc, r.n);
        }
        free(r.buf);
    }
    if (drv.over_budget)
        mc_fail("C13/hang", "%s: source call budget of %ld exceeded", name, drv.budget);
    free(stream);
}

static void
dec_small(size_t S)
{
    for (int k = 0; k < NKINDS; ++k) {
        for (int d = 0; d < 3; d += 2)
            for (size_t len = 1; len <= S; ++len)
                for (size_t cap = len - 1; cap <= len + 1; ++cap) {
                    if (!mc_case("dec-small k=%s dec=%s len=%zu cap=%zu", kname[k], decname[d], len, cap))
                        continue;
                    run_dec(k, (enum dec)d, len, cap, 0, 0, SRC_CHUNK);
                    mc_end(true, len <= cap ? "dec-accept" : "dec-enomem");
                }
        for (size_t size = 1; size <= S; ++size)
            for (size_t used = 0; used <= size; ++used)
                for (size_t off = 0; off <= used; ++off)
                    for (size_t len = 1; len <= size - used + 1; ++len) {
                        if (!mc_case("dec-small k=%s dec=%s size=%zu used=%zu off=%zu len=%zu",
                                     kname[k], decname[D_BUF], size, used, off, len))
                            continue;
                        run_dec(k, D_BUF, len, size - used, used, off, SRC_CHUNK);
                        mc_end(true, len <= size - used ? "dec-accept" : "dec-enomem");
                    }
    }
}

static void
dec_long(void)
{
    for (int k = 0; k < NKINDS; ++k)
        for (size_t li = 0; li < NLONG; ++li) {
            const size_t len = long_len(li);
            if (len > ref_max(k))
                continue; /* no prefix of this kind says so */
            for (int d = 0; d < 3; ++d)
                for (size_t cap = len - 1; cap <= len + 1; ++cap) {
                    if (!mc_case("dec-long k=%s dec=%s len=%zu cap=%zu%s", kname[k], decname[d], len, cap,
                                 d == D_BUF ? " used=3 off=1" : ""))
                        continue;
                    run_dec(k, (enum dec)d, len, cap, d == D_BUF ? 3 : 0, d == D_BUF ? 1 : 0, SRC_CHUNK);
                    mc_end(true, len <= cap ? "dec-accept" : "dec-enomem");
                }
        }
}

/* prefix says L (up to the kind's maximum); the destination is a real, exact
 * block far smaller than L: out-of-memory has to be reported and ASan watches
 * the block for a write beyond it.  (Prefix values beyond the kind's maximum
 * are outside the statement and not generated.) */
static void
dec_max(void)
{
    static const uint64_t LS[] = { (1ull << 32) - 2, (1ull << 32) - 1, 1ull << 32, SSZ_MAX - 1, SSZ_MAX };
    static const size_t CAPS[2] = { 1, 7 };
    for (int k = 0; k < NKINDS; ++k)
        for (size_t i = 0; i < sizeof LS / sizeof *LS; ++i) {
            const uint64_t L = LS[i];
            if (L > ref_max(k))
                continue;
            for (int d = 0; d < 2; ++d)
                for (int c = 0; c < 2; ++c) {
                    const size_t cap = CAPS[c];
                    if (!mc_case("dec-max k=%s dec=%s len=%llu cap=%zu", kname[k], decname[d],
                                 (unsigned long long)L, cap))
                        continue;
                    unsigned char *stream = mc_exact(14);
                    const size_t pl = ref_prefix(k, L, stream);
                    for (size_t j = 0; j < 4; ++j)
                        stream[pl + j] = pat(j);
                    struct src drv;
                    src_init(&drv, stream, pl + 4, NULL);
                    Source src;
                    make_source(&src, &drv, SRC_CHUNK);
                    const size_t used = d == D_MEM ? 0 : 3;
                    unsigned char *dst = mc_exact(used + cap);
                    memset(dst, 0xee, used + cap);
                    ssize_t rc;
                    mc_trans(1);
                    if (d == D_MEM) {
                        rc = X_memory_from_source(k, &src, dst, cap);
                    } else {
                        ByteBuffer b = { dst, used + cap, used, 1 };
                        rc = X_buffer_from_source(k, &src, &b);
                    }
                    mc_log("%s rc=%zd source consumed=%zu", decname[d], rc, drv.pos);
                    if (rc != -ENOMEM)
                        mc_fail(clause(decname[d], "enomem"), "frame of %llu against room for %zu: rc=%zd, expected out-of-memory (%d)",
                                (unsigned long long)L, cap, rc, -ENOMEM);
                    free(dst);
                    free(stream);
                    mc_end(true, "decmax-enomem");
                }
        }
}

/* ---- accepting decodes at the 32-bit maxima and beyond -------------------- */

/* The destination is an anonymous mapping that is never touched (no page of
 * it comes into existence).  The source serves the prefix octets for real and
 * identifies the payload octets of a read by the address it is asked to fill:
 * the read that follows `moved` payload octets has to name destination +
 * moved.  Its first payload read delivers `first` octets, the following ones
 * everything asked.
 *
 * That is a technique, not a sentence of the statement: the statement says the
 * payload is returned, not that the caller's destination is handed to the
 * source.  A decoder that asks its source to fill memory *outside the mapping*
 * (a private bounce buffer) delivers the payload by copying, which this source
 * cannot follow (it never writes an octet): such a case is ended at once and
 * "not judged" (a cap), never a violation.  A read that names the mapping but
 * not destination + moved is judged -- the octets the source stands for are
 * where it was asked to put them -- unless pages of the mapping exist
 * afterwards (the decoder itself worked on the destination: not judged
 * either).  No address or address difference involving memory outside the
 * mapping is ever logged. */
#define ARENA_SIZE ((1ull << 33) + (1ull << 20))
static unsigned char *ARENA;

struct hsrc {
    unsigned char pfx[10];
    size_t npfx, ppos;
    uint64_t len, moved, first;
    bool first_done, bad, gave_up, outside;
    uintptr_t dst;
    uintptr_t map_lo, map_hi; /* the mapping the destination lies in */
    long calls, bad_call, outside_call;
    long long bad_off;
    uint64_t bad_moved;
};

static ssize_t
hsrc_chunk(void *drv, void *data, size_t n)
{
    struct hsrc *h = drv;
    if (++h->calls > SEG_BUDGET) {
        h->gave_up = true;
        return -EIO;
    }
    if (h->ppos < h->npfx) {
        size_t m = h->npfx - h->ppos;
        if (m > n)
            m = n;
        memcpy(data, h->pfx + h->ppos, m);
        h->ppos += m;
        return (ssize_t)m;
    }
    if (h->moved >= h->len)
        return -ENODATA;
    const uintptr_t a = (uintptr_t)data;
    if (a < h->map_lo || a >= h->map_hi) {
        /* not delivered in place: nothing more can be learnt from this call */
        if (!h->outside) {
            h->outside = true;
            h->outside_call = h->calls;
        }
        mc_log("source call %ld: asked to fill %zu octets outside the destination", h->calls, n);
        return -EIO;
    }
    /* both addresses lie in the mapping: their difference does not depend on where the mapping is */
    const long long at = (long long)(intptr_t)(a - h->dst);
    if (a != h->dst + h->moved && !h->bad) {
        h->bad = true;
        h->bad_call = h->calls;
        h->bad_off = at;
        h->bad_moved = h->moved;
    }
    uint64_t t = h->len - h->moved;
    if (t > n)
        t = n;
    if (!h->first_done) {
        h->first_done = true;
        if (t > h->first)
            t = h->first;
    }
    h->moved += t;
    mc_log("source call %ld: asked to fill %zu octets inside the destination at offset %lld -> %llu", h->calls, n, at,
           (unsigned long long)t);
    return (ssize_t)t;
}

/* number of pages of [m, m+size) that exist */
static size_t
resident_pages(unsigned char *m, uint64_t size)
{
    const uint64_t pagesz = (uint64_t)sysconf(_SC_PAGESIZE);
    const uint64_t step = (uint64_t)256 << 20; /* 65536 pages per mincore call */
    unsigned char *vec = malloc((size_t)(step / pagesz) + 1u);
    if (vec == NULL)
        mc_broken("no memory for the page vector");
    size_t resident = 0;
    for (uint64_t o = 0; o < size; o += step) {
        const uint64_t l = size - o < step ? size - o : step;
        if (mincore(m + o, (size_t)l, vec) != 0)
            mc_broken("mincore failed on a mapping of the harness");
        for (uint64_t i = 0; i < (l + pagesz - 1) / pagesz; ++i)
            resident += vec[i] & 1u;
    }
    free(vec);
    return resident;
}

static void
dec_huge_cap(void)
{
    static bool said;
    if (!said)
        mc_cap("a decoder does not just hand the destination to its source (bounce buffer / works on the destination itself): dec-huge cases not judged");
    said = true;
}

/* The family rests on the payload being delivered in place into a destination
 * that is never touched.  So both decoders are first run once on a 64 MiB
 * mapping: if the source is asked to fill memory outside it (exact: the first
 * such call decides, whatever the size of the bounce buffer), or if pages of
 * it came into existence (more than a handful), the cases are numbered but not
 * run and the run is marked incomplete -- never a violation. */
static bool
dec_huge_probe(void)
{
    const uint64_t size = (uint64_t)64 << 20, len = size - 64u;
    bool ok = true;
    for (int d = 0; ok && d < 2; ++d) {
        unsigned char *m = mmap(NULL, size, PROT_READ | PROT_WRITE, MAP_PRIVATE | MAP_ANONYMOUS | MAP_NORESERVE, -1, 0);
        if (m == MAP_FAILED)
            mc_broken("cannot set up the probe mapping");
        struct hsrc h;
        memset(&h, 0, sizeof h);
        h.npfx = ref_prefix(K_VAR, len, h.pfx);
        h.len = len;
        h.first = len;
        h.map_lo = (uintptr_t)m;
        h.map_hi = (uintptr_t)m + size;
        Source src;
        chunk_source_init(&src, hsrc_chunk, &h);
        if (d == D_MEM) {
            h.dst = (uintptr_t)m;
            (void)X_memory_from_source(K_VAR, &src, m, (size_t)size);
        } else {
            ByteBuffer b = { m, (size_t)size, 3, 1 };
            h.dst = (uintptr_t)m + 3u;
            (void)X_buffer_from_source(K_VAR, &src, &b);
        }
        const size_t resident = resident_pages(m, size);
        munmap(m, size);
        ok = !h.outside && resident <= 8;
    }
    if (!ok)
        dec_huge_cap();
    return ok;
}

static void
dec_huge(void)
{
    const bool runnable = dec_huge_probe();
    static const int ks[4] = { K_VAR, K_LE32, K_BE32, K_VARW };
    static const uint64_t LS[] = { (1ull << 32) - 3, (1ull << 32) - 1, (1ull << 32) + 5, (1ull << 33) - EINTR + 1 };
    static const uint64_t FIRST[] = { 1, 1ull << 31, (1ull << 32) - EAGAIN, (1ull << 32) - EINTR, (1ull << 32) - EIO,
                                      1ull << 32, (1ull << 33) - EINTR };
    for (int ki = 0; ki < 4; ++ki)
        for (size_t li = 0; li < sizeof LS / sizeof *LS; ++li)
            for (size_t fi = 0; fi < sizeof FIRST / sizeof *FIRST; ++fi)
                for (int d = 0; d < 2; ++d)
                    for (uint64_t slack = 0; slack < 2; ++slack) {
                        const int k = ks[ki];
                        const uint64_t len = LS[li];
                        if (len > ref_max(k) || FIRST[fi] >= len)
                            continue;
                        if (!mc_case("dec-huge k=%s dec=%s len=%llu cap=%llu first-read=%llu%s", kname[k], decname[d],
                                     (unsigned long long)len, (unsigned long long)(len + slack), (unsigned long long)FIRST[fi],
                                     d == D_BUF ? " used=3 off=1" : ""))
                            continue;
                        if (!runnable) {
                            mc_log("not run: the probe found a decoder that does not deliver in place into an untouched destination");
                            mc_end(false, "dechuge-not-run");
                            continue;
                        }
                        struct hsrc h;
                        memset(&h, 0, sizeof h);
                        h.npfx = ref_prefix(k, len, h.pfx);
                        h.len = len;
                        h.first = FIRST[fi];
                        h.map_lo = (uintptr_t)ARENA;
                        h.map_hi = (uintptr_t)ARENA + ARENA_SIZE;
                        Source src;
                        chunk_source_init(&src, hsrc_chunk, &h);
                        ssize_t rc;
                        bool state_ok = true;
                        const char *outcome = "dechuge-accept";
                        mc_trans(1);
                        if (d == D_MEM) {
                            h.dst = (uintptr_t)ARENA;
                            rc = X_memory_from_source(k, &src, ARENA, (size_t)(len + slack));
                        } else {
                            ByteBuffer b = { ARENA, (size_t)(3u + len + slack), 3, 1 };
                            h.dst = (uintptr_t)ARENA + 3u;
                            rc = X_buffer_from_source(k, &src, &b);
                            mc_log("buffer after: used=%zu offset=%zu", b.used, b.offset);
                            state_ok = b.data == ARENA && b.size == 3u + len + slack && b.used == 3u + len && b.offset == 1;
                        }
                        mc_log("%s rc=%zd, %llu payload octets delivered in %ld source calls", decname[d], rc,
                               (unsigned long long)h.moved, h.calls);
                        if (h.outside) {
                            /* a bounce buffer (the probe does not see one that is only used for frames this long) */
                            mc_log("not judged: source call %ld was asked to fill memory outside the destination, the payload is not delivered in place",
                                   h.outside_call);
                            dec_huge_cap();
                            outcome = "dechuge-not-judged";
                        } else if (h.bad) {
                            if (resident_pages(ARENA, ARENA_SIZE) != 0) {
                                /* the decoder itself moved octets inside the destination: where the source
                                 * was asked to put them is not where they are */
                                mc_log("not judged: the decoder worked on the destination itself");
                                if (madvise(ARENA, ARENA_SIZE, MADV_DONTNEED) != 0)
                                    mc_broken("cannot release the pages of the destination mapping");
                                dec_huge_cap();
                                outcome = "dechuge-not-judged";
                            } else {
                                mc_fail(clause(decname[d], "returns-payload"), "source call %ld was asked to fill the destination at offset %lld after %llu payload octets had been delivered (and the decoder never touched the destination itself): the payload does not arrive in place",
                                        h.bad_call, h.bad_off, (unsigned long long)h.bad_moved);
                            }
                        } else if (h.gave_up && h.moved <= len)
                            /* every read so far delivered in place: an implementation that reads little at a time */
                            mc_log("not judged: %ld source calls delivered a prefix of the payload only", h.calls);
                        else if (rc < 0 || (uint64_t)rc != len || h.moved != len)
                            mc_fail(clause(decname[d], "returns-payload"), "room for %llu, frame of %llu: rc=%zd, %llu payload octets taken from the source",
                                    (unsigned long long)(len + slack), (unsigned long long)len, rc, (unsigned long long)h.moved);
                        else if (!state_ok)
                            mc_fail(clause(decname[d], "appends"), "buffer after a frame of %llu octets does not hold it behind the old fill mark",
                                    (unsigned long long)len);
                        mc_end(strcmp(outcome, "dechuge-accept") == 0, outcome);
                    }
}

/* ---- accepting decodes of the sink decoder at the 32-bit maxima ----------- */

/* decode_source_to_sink moves octet by octet unless an endpoint offers a
 * buffer (the getbuffer extension of endpoints.h).  Here the source offers the
 * untouched mapping as its scratch block: a payload read then names the
 * scratch block and is answered with a count only, the sink is handed the
 * scratch block and that count and counts.  Octets are identified by address
 * and count; nothing is dereferenced.  A decoder that does not use the offered
 * block (asks the source to fill other memory) cannot be followed: the family
 * is then not run / the case not judged (a cap), never a violation. */
struct hs2 {
    unsigned char pfx[10];
    size_t npfx, ppos;
    uint64_t len, moved, first, last, sunk;
    bool first_done, gave_up, foreign, sink_bad;
    long calls, sink_calls;
};

static ByteBuffer
hs2_getbuffer(Source *source)
{
    (void)source;
    ByteBuffer b;
    b.data = ARENA;
    b.size = b.used = (size_t)1 << 33;
    b.offset = 0;
    return b;
}

static ssize_t
hs2_get(void *drv, void *data, size_t n)
{
    struct hs2 *h = drv;
    if (++h->calls > SEG_BUDGET) {
        h->gave_up = true;
        return -EIO;
    }
    if (h->ppos < h->npfx) {
        size_t m = h->npfx - h->ppos;
        if (m > n)
            m = n;
        memcpy(data, h->pfx + h->ppos, m);
        h->ppos += m;
        return (ssize_t)m;
    }
    if (h->moved >= h->len)
        return -ENODATA;
    if ((unsigned char *)data != ARENA) {
        h->foreign = true;
        return -EIO;
    }
    uint64_t t = h->len - h->moved;
    if (t > n)
        t = n;
    if (!h->first_done) {
        h->first_done = true;
        if (t > h->first)
            t = h->first;
    }
    h->moved += t;
    h->last = t;
    mc_log("source call %ld: asked for %zu octets into its scratch block -> %llu", h->calls, n, (unsigned long long)t);
    return (ssize_t)t;
}

static ssize_t
hs2_put(void *drv, const void *data, size_t n)
{
    struct hs2 *h = drv;
    if (++h->sink_calls > SEG_BUDGET) {
        h->gave_up = true;
        return -EIO;
    }
    if ((const unsigned char *)data != ARENA || n != h->last) {
        if (!h->sink_bad)
            mc_log("sink call %ld: handed %zu octets %s the scratch block, the source had just delivered %llu", h->sink_calls, n,
                   (const unsigned char *)data == ARENA ? "at the start of" : "not at the start of", (unsigned long long)h->last);
        h->sink_bad = true;
    }
    h->sunk += n;
    h->last = 0;
    return (ssize_t)n;
}

static ssize_t
run_hs2(int k, struct hs2 *h, uint64_t len, uint64_t first)
{
    memset(h, 0, sizeof *h);
    h->npfx = ref_prefix(k, len, h->pfx);
    h->len = len;
    h->first = first;
    Source src;
    chunk_source_init(&src, hs2_get, h);
    src.ext.getbuffer = hs2_getbuffer;
    Sink snk;
    chunk_sink_init(&snk, hs2_put, h);
    mc_trans(1);
    return X_decode_source_to_sink(k, &src, &snk);
}

static void
dec_huge_sink(void)
{
    struct hs2 h;
    /* probe: does the decoder move a 64 MiB frame through the offered block? */
    (void)run_hs2(K_VAR, &h, (uint64_t)64 << 20, (uint64_t)64 << 20);
    const bool runnable = !h.foreign && !h.gave_up;
    if (!runnable)
        mc_cap("decode_source_to_sink does not move the payload through the block its source offers: dec-huge-sink cases not run");
    static const int ks[4] = { K_VAR, K_LE32, K_BE32, K_VARW };
    static const uint64_t LS[] = { 1ull << 31, (1ull << 31) + 7, (1ull << 32) - 3, (1ull << 32) - 1, (1ull << 32) + 5,
                                   (1ull << 33) - EINTR + 1 };
    static const uint64_t FIRST[] = { 1, 1ull << 31, (1ull << 32) - EAGAIN, (1ull << 32) - EINTR, (1ull << 32) - EIO,
                                      1ull << 32, UINT64_MAX /* everything asked */ };
    for (int ki = 0; ki < 4; ++ki)
        for (size_t li = 0; li < sizeof LS / sizeof *LS; ++li)
            for (size_t fi = 0; fi < sizeof FIRST / sizeof *FIRST; ++fi) {
                const int k = ks[ki];
                const uint64_t len = LS[li];
                if (len > ref_max(k) || (FIRST[fi] != UINT64_MAX && FIRST[fi] >= len))
                    continue;
                if (!mc_case("dec-huge-sink k=%s dec=%s len=%llu source offers an untouched 8 GiB scratch block, first-read=%llu",
                             kname[k], decname[D_SINK], (unsigned long long)len,
                             (unsigned long long)(FIRST[fi] == UINT64_MAX ? len : FIRST[fi])))
                    continue;
                if (!runnable) {
                    mc_end(false, "dechuge-not-run");
                    continue;
                }
                const ssize_t rc = run_hs2(k, &h, len, FIRST[fi]);
                mc_log("%s rc=%zd: %llu octets taken from the source in %ld calls, %llu handed to the sink in %ld calls", decname[D_SINK], rc,
                       (unsigned long long)h.moved, h.calls, (unsigned long long)h.sunk, h.sink_calls);
                const char *outcome = "dechuge-sink-accept";
                if (h.foreign) {
                    mc_log("not judged: the source was asked to fill memory other than the block it offers");
                    mc_cap("decode_source_to_sink does not move the payload through the block its source offers: case not judged");
                    outcome = "dechuge-not-judged";
                } else if (h.gave_up && !h.sink_bad && h.sunk <= h.moved && h.moved <= len) {
                    mc_log("not judged: %d driver calls moved a prefix of the payload only", SEG_BUDGET);
                    outcome = "dechuge-not-judged";
                } else if (rc < 0 || h.sink_bad || h.moved != len || h.sunk != len) {
                    mc_fail(clause(decname[D_SINK], "returns-payload"), "frame of %llu octets: rc=%zd, %llu octets taken from the source, %llu handed to the sink%s",
                            (unsigned long long)len, rc, (unsigned long long)h.moved, (unsigned long long)h.sunk,
                            h.sink_bad ? ", not as the source delivered them" : "");
                }
                mc_end(strcmp(outcome, "dechuge-sink-accept") == 0, outcome);
            }
}

/* ---- consecutive frames under fragmentation ------------------------------ */
#define MAXFR 3
struct shape {
    int k;
    size_t nf, len[MAXFR], total;
};

static void
run_stream(const struct shape *sh, enum dec d, const unsigned char *cut, enum srckind sk, const char *what, size_t scratch)
{
    unsigned char *stream = mc_exact(sh->total);
    size_t sl = 0, sum = 0;
    for (size_t f = 0; f < sh->nf; ++f) {
        sl += put_frame(stream + sl, sh->k, sh->len[f], f);
        sum += sh->len[f];
    }
    struct src drv;
    src_init(&drv, stream, sl, cut);
    Source src;
    make_source(&src, &drv, sk);
    if (scratch) {
        drv.scratch = mc_exact(scratch);
        memset(drv.scratch, 0xee, scratch);
        drv.scratch_size = scratch;
        src.ext.getbuffer = src_getbuffer;
    }
    const char *name = decname[d];
    /* accumulating destinations for the buffer and the sink decoder */
    const size_t bused = 2, boff = 1;
    unsigned char *mem = mc_exact(bused + sum);
    for (size_t i = 0; i < bused + sum; ++i)
        mem[i] = old(i);
    ByteBuffer b = { mem, bused + sum, bused, boff };
    struct rec r;
    cap_init(&r, sum);
    Sink s;
    chunk_sink_init(&s, cap_chunk, &r);
    size_t cum = 0;
    for (size_t f = 0; f < sh->nf; ++f) {
        const size_t len = sh->len[f];
        bool good;
        ssize_t rc;
        mc_trans(1);
        if (d == D_MEM) {
            unsigned char *dst = mc_exact(len);
            memset(dst, 0xee, len);
            rc = X_memory_from_source(sh->k, &src, dst, len);
            mc_log_hex("destination", dst, len);
            good = rc >= 0 && (size_t)rc == len && payload_is(dst, len, f);
            free(dst);
        } else if (d == D_BUF) {
            rc = X_buffer_from_source(sh->k, &src, &b);
            mc_log("buffer after: used=%zu offset=%zu", b.used, b.offset);
            mc_log_hex("buffer", mem, bused + sum);
            good = rc >= 0 && (size_t)rc == len && b.used == bused + cum + len && b.offset == boff
                && b.data == mem && mem[0] == old(0) && mem[1] == old(1)
                && payload_is(mem + bused + cum, len, f);
        } else {
            rc = X_decode_source_to_sink(sh->k, &src, &s);
            mc_log_hex("sink", r.buf, r.n);
            good = rc >= 0 && r.n == cum + len && payload_is(r.buf + cum, len, f);
        }
        mc_log("frame %zu (%zu octets): rc=%zd source consumed=%zu of %zu after %ld calls", f, len, rc, drv.pos, sl, drv.calls);
        if (drv.over_budget) {
            mc_fail("C13/hang", "%s: source call budget of %ld exceeded in frame %zu", name, drv.budget, f);
            break;
        }
        if (!good) {
            mc_fail(clause(name, what), "frame %zu of %zu (payload %zu octets) was not returned intact and in order: rc=%zd, source consumed %zu of %zu octets",
                    f, sh->nf, len, rc, drv.pos, sl);
            break;
        }
        cum += len;
    }
    free(r.buf);
    free(mem);
    free(stream);
    free(drv.scratch);
}

static void
shape_desc(const struct shape *sh, char *buf, size_t n)
{
    size_t l = 0;
    buf[0] = 0;
    for (size_t f = 0; f < sh->nf; ++f)
        l += (size_t)snprintf(buf + l, n - l, "%s%zu", f ? "," : "", sh->len[f]);
}

static void
cuts_desc(const unsigned char *cut, size_t L, char *buf, size_t n)
{
    /* fragment sizes, e.g. 1+3+2 */
    size_t l = 0, run = 0;
    buf[0] = 0;
    for (size_t i = 0; i < L && l + 8 < n; ++i) {
        run++;
        if (cut[i] || i + 1 == L) {
            l += (size_t)snprintf(buf + l, n - l, "%s%zu", l ? "+" : "", run);
            run = 0;
        }
    }
}

typedef void (*shape_fn)(const struct shape *);

static void
for_shapes(size_t Lmax, shape_fn fn)
{
    for (int k = 0; k < NKINDS; ++k)
        for (size_t nf = 1; nf <= MAXFR; ++nf) {
            unsigned char tmp[10];
            const size_t p = ref_prefix(k, 1, tmp); /* lengths here are < 128 */
            struct shape sh;
            memset(&sh, 0, sizeof sh);
            sh.k = k;
            sh.nf = nf;
            for (size_t f = 0; f < nf; ++f)
                sh.len[f] = 1;
            for (;;) {
                sh.total = 0;
                for (size_t f = 0; f < nf; ++f)
                    sh.total += p + sh.len[f];
                if (sh.total <= Lmax)
                    fn(&sh);
                /* odometer over lengths 1..Lmax */
                size_t f = 0;
                while (f < nf && ++sh.len[f] > Lmax)
                    sh.len[f++] = 1;
                if (f == nf)
                    break;
            }
        }
}

static void
shape_all_fragmentations(const struct shape *sh)
{
    const size_t L = sh->total;
    for (int d = 0; d < 3; ++d)
        for (uint32_t mask = 0; mask < (1u << (L - 1)); ++mask) {
            if (!mc_would_run()) {
                mc_skip_case();
                continue;
            }
            unsigned char cut[32] = { 0 };
            for (size_t i = 0; i + 1 < L; ++i)
                cut[i] = (mask >> i) & 1u;
            char ls[40], cs[80];
            shape_desc(sh, ls, sizeof ls);
            cuts_desc(cut, L, cs, sizeof cs);
            if (!mc_case("stream k=%s frames=[%s] dec=%s fragments=%s", kname[sh->k], ls, decname[d], cs))
                continue;
            run_stream(sh, (enum dec)d, cut, SRC_CHUNK, "stream-in-order", 0);
            mc_end(mask != 0 || sh->nf > 1, "stream-inorder");
        }
}

/* the same streams from a chunk source that offers a scratch block (the
 * getbuffer extension): the sink decoder then moves the payload through that
 * block, however small, instead of octet by octet */
static void
shape_getbuffer(const struct shape *sh)
{
    static const size_t SCR[3] = { 1, 3, 8 };
    const size_t L = sh->total;
    for (int si = 0; si < 3; ++si)
        for (uint32_t mask = 0; mask < (1u << (L - 1)); ++mask) {
            if (!mc_would_run()) {
                mc_skip_case();
                continue;
            }
            unsigned char cut[32] = { 0 };
            for (size_t i = 0; i + 1 < L; ++i)
                cut[i] = (mask >> i) & 1u;
            char ls[40], cs[80];
            shape_desc(sh, ls, sizeof ls);
            cuts_desc(cut, L, cs, sizeof cs);
            if (!mc_case("stream-getbuffer k=%s frames=[%s] dec=%s scratch=%zu fragments=%s", kname[sh->k], ls, decname[D_SINK],
                         SCR[si], cs))
                continue;
            run_stream(sh, D_SINK, cut, SRC_CHUNK, "stream-in-order", SCR[si]);
            mc_end(true, "stream-getbuffer");
        }
}

static void
streams(size_t Lmax)
{
    for_shapes(Lmax, shape_all_fragmentations);
}

static void
shape_octet(const struct shape *sh)
{
    for (int d = 0; d < 3; ++d) {
        char ls[40];
        shape_desc(sh, ls, sizeof ls);
        if (!mc_case("stream-octet-source k=%s frames=[%s] dec=%s", kname[sh->k], ls, decname[d]))
            continue;
        run_stream(sh, (enum dec)d, NULL, SRC_OCTET, "octet-source-in-order", 0);
        mc_end(true, "stream-octet");
    }
}

static void
streams_octet(size_t Lmax)
{
    for_shapes(Lmax, shape_octet);
}

/* a frame whose varint prefix has two octets (and the 16-bit kinds at the same
 * length): every fragmentation with at most two cuts */
static void
stream_two_cuts(void)
{
    static const int ks[4] = { K_VAR, K_LE16, K_BE32, K_VARW };
    for (int ki = 0; ki < 4; ++ki) {
        struct shape sh;
        memset(&sh, 0, sizeof sh);
        unsigned char tmp[10];
        sh.k = ks[ki];
        sh.nf = 1;
        sh.len[0] = 128;
        sh.total = ref_prefix(sh.k, 128, tmp) + 128;
        const size_t L = sh.total;
        for (int d = 0; d < 3; ++d)
            for (size_t i = 0; i < L; ++i)      /* i == L-1: no first cut */
                for (size_t j = i; j < L - 1 || j == i; ++j) { /* j == i: no second cut */
                    if (!mc_case("stream2 k=%s frames=[128] dec=%s cuts-after=%zd,%zd", kname[sh.k], decname[d],
                                 i == L - 1 ? (ssize_t)-1 : (ssize_t)i, j == i ? (ssize_t)-1 : (ssize_t)j))
                        continue;
                    unsigned char cut[140] = { 0 };
                    if (i != L - 1)
                        cut[i] = 1;
                    if (j != i)
                        cut[j] = 1;
                    run_stream(&sh, (enum dec)d, cut, SRC_CHUNK, "stream-in-order", 0);
                    mc_end(i != L - 1, "stream2-inorder");
                }
    }
}

/* ------------------------------------------------------------------------ */
/* Totals that only the *sum* of a chunk list reaches                        */
/* ------------------------------------------------------------------------ */

/* 2..4 chunks of (nearly) equal size, none of them near a power-of-two
 * boundary, whose unread octets add up to a total around 2^31 / 2^32: fake
 * extents over 16 real octets each, segment sink. */
static bool
run_sum(int k, enum ep ep, uint64_t total, int parts)
{
    bool judged = true;
    unsigned char *blk[SEG_BLOCKS];
    struct seg g;
    memset(&g, 0, sizeof g);
    g.nblk = SEG_BLOCKS;
    for (int b = 0; b < SEG_BLOCKS; ++b) {
        blk[b] = mc_exact(REALBLK);
        for (size_t i = 0; i < REALBLK; ++i)
            blk[b][i] = pat(40u * (size_t)b + i);
        g.base[b] = blk[b];
        g.real[b] = REALBLK;
        g.patbase[b] = 40u * (size_t)b;
    }
    Sink s;
    chunk_sink_init(&s, seg_chunk, &g);
    ByteBuffer arr[SEG_BLOCKS];
    struct xseg xs[SEG_BLOCKS];
    uint64_t left = total;
    for (int i = 0; i < parts; ++i) {
        const uint64_t sz = i + 1 < parts ? total / (uint64_t)parts : left;
        left -= sz;
        arr[i] = (ByteBuffer){ blk[i], 1u + sz + 2u, 1u + sz, 1 };
        xs[i] = (struct xseg){ i, 1, sz };
    }
    mc_trans(1);
    if (ep == EP_CHUNKS_USE) {
        LengthPrefixChunks *lpc = mc_exact(sizeof *lpc);
        memset(lpc, 0, sizeof *lpc);
        lpc->payload = (ByteChunks){ (size_t)parts, 0, arr };
        const int rc = X_chunks_use(k, lpc);
        judge_obj(epname[ep], k, total, NULL, lpc->prefix_, &lpc->prefix, NULL, rc);
        free(lpc);
    } else {
        ByteChunks bc = { (size_t)parts, 0, arr };
        const ssize_t rc = X_chunks_to_sink(k, &s, &bc);
        judged = judge_seg(epname[ep], k, total, xs, parts, &g, rc);
    }
    for (int i = 0; i < SEG_BLOCKS; ++i)
        free(blk[i]);
    return judged;
}

static void
enc_sum(void)
{
    static const uint64_t T[] = { (1ull << 31) - 1, 1ull << 31, (1ull << 31) + 5, 0x90000000ull, (1ull << 32) - 1,
                                  1ull << 32, (1ull << 32) + 5, 0x180000000ull };
    for (int k = 0; k < NKINDS; ++k)
        for (size_t i = 0; i < sizeof T / sizeof *T; ++i)
            for (int parts = 2; parts <= 4; ++parts)
                for (int v = 0; v < 2; ++v) {
                    const enum ep ep = v ? EP_CHUNKS_SINK : EP_CHUNKS_USE;
                    if (!mc_case("enc-sum k=%s ep=%s total=%llu in %d chunks of equal size", kname[k], epname[ep],
                                 (unsigned long long)T[i], parts))
                        continue;
                    if (encmax_gated(k, ep, T[i])) {
                        mc_log("not run: the probe found a sink encoder that hands its sink payload octets from memory that is not the caller's");
                        mc_end(false, "encmax-not-run");
                        continue;
                    }
                    if (run_sum(k, ep, T[i], parts))
                        mc_end(true, ref_verdict(k, T[i], v != 0) == V_ACCEPT ? "encsum-accept" : "encsum-refuse");
                    else
                        mc_end(false, "encmax-not-judged");
                }
}

/* ------------------------------------------------------------------------ */
/* Histories on one prefix object: encode, refused encode, encode again      */
/* ------------------------------------------------------------------------ */

/* A prefix object is kept by its owner (a frame is set up once and sent, or
 * re-sent, later).  "Lengths beyond the kind's maximum are refused before
 * anything is emitted" -- for the entry points that emit *into a prefix
 * object* the emission is what they put into the object: the prefix octets
 * and the designation of the payload.  So a refused call must not leave the
 * object describing a frame it did not describe before.  After a refused call
 * two states are admitted (nothing else is said about a refused call, cf. the
 * refused set-up of C18 that nulls the descriptor first):
 *   (A) the frame of the last accepted call, as it was: the prefix view holds
 *       the same octets, the payload view designates the same octets;
 *   (B) no frame at all: the prefix view or the payload view is empty.
 * Reported: a non-empty prefix view together with a non-empty payload view
 * that are not the views of (A) -- e.g. the previous prefix in front of the
 * refused, over-long message.  For chunks_use the payload list belongs to the
 * caller (he sets it before the call), so only the prefix view is judged: as
 * it was, or empty.
 * Every history of <= H steps on ONE object over: an accepted call (3 buffer
 * entry points x 2 payloads / chunk lists of 2 totals) and a refused call (same
 * entry points x lengths maximum+1 and 2^64-1 through fake extents that are
 * never dereferenced); every accepted call is held to the usual oracle. */
struct objview {
    bool frame;      /* both views non-empty and the prefix view lies inside the object's storage */
    bool judgeable;  /* false: a non-empty prefix view outside the storage (not dereferenced) */
    unsigned char pfx[sizeof(((LengthPrefixBuffer *)0)->prefix_) > sizeof(((LengthPrefixChunks *)0)->prefix_)
                          ? sizeof(((LengthPrefixBuffer *)0)->prefix_)
                          : sizeof(((LengthPrefixChunks *)0)->prefix_)];
    size_t npfx;
    uintptr_t pay;
    size_t npay;
};

#define objview_take(v, storage, prefix, payload) objview_take_(v, storage, sizeof(storage), prefix, payload)
static void
objview_take_(struct objview *v, const unsigned char *storage, size_t storage_len, const ByteBuffer *prefix,
              const ByteBuffer *payload)
{
    memset(v, 0, sizeof *v);
    v->judgeable = true;
    const bool pfx_empty = prefix->data == NULL || prefix->offset >= prefix->used;
    const bool pay_empty = payload != NULL && (payload->data == NULL || payload->offset >= payload->used);
    if (pfx_empty || pay_empty)
        return;
    if (prefix->data < storage || prefix->data > storage + storage_len
        || prefix->used > (size_t)(storage + storage_len - prefix->data)) {
        v->judgeable = false;
        return;
    }
    v->frame = true;
    v->npfx = prefix->used - prefix->offset;
    memcpy(v->pfx, prefix->data + prefix->offset, v->npfx);
    if (payload != NULL) {
        v->pay = (uintptr_t)payload->data + payload->offset;
        v->npay = payload->used - payload->offset;
    }
}

static void
judge_refused_obj(const char *ep, int k, uint64_t n, const struct objview *before, const struct objview *after, int rc,
                  const unsigned char *blk0)
{
    if (rc >= 0 || !after->judgeable || !after->frame)
        return; /* an accepting return is reported by judge_obj; (B) */
    if (before->judgeable && before->frame && after->npfx == before->npfx && memcmp(after->pfx, before->pfx, after->npfx) == 0
        && after->pay == before->pay && after->npay == before->npay)
        return; /* (A) */
    char what[200];
    if (before->frame && after->npfx == before->npfx && memcmp(after->pfx, before->pfx, after->npfx) == 0)
        snprintf(what, sizeof what, "the previous frame's prefix in front of a payload view of %zu octets that is not the previous payload%s",
                 after->npay, (blk0 && after->npay == (size_t)n) ? " (the refused message)" : "");
    else
        snprintf(what, sizeof what, "a prefix view of %zu octets that the object did not hold before the call", after->npfx);
    mc_fail(clause(ep, "refuses-overmax"), "length %llu beyond the %s maximum was refused (rc=%d), but the call left the prefix object describing %s: something was emitted into the object before the refusal",
            (unsigned long long)n, kname[k], rc, what);
}

#define OH_LETTERS 12
static void
objhist_letter(int l, char *out, size_t n)
{
    static const char *const e[3] = { "memory_encode", "buffer_encode", "buffer_encode_n" };
    if (l < 6)
        snprintf(out, n, "%s(%d octets)", e[l % 3], l < 3 ? 1 : 5);
    else
        snprintf(out, n, "%s(%s: refused)", e[l % 3], l < 9 ? "max+1 octets" : "2^64-1 octets");
}

static void
run_objhist(int k, const unsigned char *h, int hl)
{
    unsigned char *blk[4];
    for (int b = 0; b < 4; ++b) {
        blk[b] = mc_exact(REALBLK);
        for (size_t i = 0; i < REALBLK; ++i)
            blk[b][i] = pat(40u * (size_t)b + i);
    }
    LengthPrefixBuffer *lpb = mc_exact(sizeof *lpb);
    memset(lpb, 0, sizeof *lpb);
    for (int i = 0; i < hl && !mc.cur_failed; ++i) {
        const int l = h[i];
        const enum ep ep = l % 3 == 0 ? EP_MEM_ENC : l % 3 == 1 ? EP_BUF_ENC : EP_BUF_ENC_N;
        const bool isn = ep == EP_BUF_ENC_N;
        const char *name = epname[ep];
        unsigned char *mem = blk[i % 4];
        uint64_t n;
        size_t off, used, size;
        if (l < 6) {
            n = l < 3 ? 1 : 5;
            off = 1u + (size_t)(i % 3);
            used = off + n + (isn ? 2u : 0u);
            size = REALBLK;
        } else {
            n = l < 9 ? (ref_max(k) + 1u) : UINT64_MAX;
            const bool roomy = n <= SIZE_MAX - 32u;
            off = roomy ? 2 : 0;
            used = off + n + ((roomy && isn) ? 3 : 0);
            size = used + (roomy ? 5 : 0);
        }
        ByteBuffer b = { mem, size, used, off };
        struct objview before, after;
        objview_take(&before, lpb->prefix_, &lpb->prefix, &lpb->payload);
        int rc;
        mc_trans(1);
        if (ep == EP_MEM_ENC)
            rc = X_memory_encode(k, lpb, mem + off, (size_t)n);
        else if (ep == EP_BUF_ENC)
            rc = X_buffer_encode(k, lpb, &b);
        else
            rc = X_buffer_encode_n(k, lpb, &b, (size_t)n);
        mc_log("step %d: %s n=%llu", i, name, (unsigned long long)n);
        if (judge_obj(name, k, n, mem + off, lpb->prefix_, &lpb->prefix, &lpb->payload, rc)) {
            if (isn)
                check_advance(name, &b, mem, size, used, off, (size_t)n);
        } else if (!mc.cur_failed) {
            if (isn)
                check_position(name, &b, mem, size, used, off, n);
            objview_take(&after, lpb->prefix_, &lpb->prefix, &lpb->payload);
            mc_log("object after the refused call: %s", !after.judgeable ? "prefix view outside the object (not judged)"
                                                        : after.frame    ? "both views non-empty"
                                                                         : "a view is empty");
            if (!mc.cur_failed)
                judge_refused_obj(name, k, n, &before, &after, rc, mem);
        }
    }
    free(lpb);
    for (int b = 0; b < 4; ++b)
        free(blk[b]);
}

/* chunks_use: letters 0,1 accepted (totals 3 and 6), 2,3 refused (max+1, 2^64-1 as two fake extents) */
static void
run_objhist_chunks(int k, const unsigned char *h, int hl)
{
    unsigned char *blk[4];
    for (int b = 0; b < 4; ++b) {
        blk[b] = mc_exact(REALBLK);
        for (size_t i = 0; i < REALBLK; ++i)
            blk[b][i] = pat(40u * (size_t)b + i);
    }
    LengthPrefixChunks *lpc = mc_exact(sizeof *lpc);
    memset(lpc, 0, sizeof *lpc);
    const char *name = epname[EP_CHUNKS_USE];
    for (int i = 0; i < hl && !mc.cur_failed; ++i) {
        const int l = h[i];
        const uint64_t n = l == 0 ? 3 : l == 1 ? 6 : l == 2 ? ref_max(k) + 1u : UINT64_MAX;
        /* inactive(5) | n-2 octets | 2 octets */
        ByteBuffer arr[3] = { { blk[0], 8, 6, 1 }, { blk[1], 1 + (size_t)(n - 2), 1 + (size_t)(n - 2), 1 }, { blk[3], 4, 2, 0 } };
        struct objview before, after;
        objview_take(&before, lpc->prefix_, &lpc->prefix, NULL);
        lpc->payload = (ByteChunks){ 3, 1, arr }; /* the caller's list */
        mc_trans(1);
        const int rc = X_chunks_use(k, lpc);
        mc_log("step %d: %s total=%llu", i, name, (unsigned long long)n);
        if (!judge_obj(name, k, n, NULL, lpc->prefix_, &lpc->prefix, NULL, rc) && !mc.cur_failed) {
            objview_take(&after, lpc->prefix_, &lpc->prefix, NULL);
            judge_refused_obj(name, k, n, &before, &after, rc, NULL);
        }
    }
    free(lpc);
    for (int b = 0; b < 4; ++b)
        free(blk[b]);
}

static void
enc_objhist(int H)
{
    for (int k = 0; k < NKINDS; ++k) {
        int npow = OH_LETTERS;
        for (int hl = 1; hl <= H; ++hl, npow *= OH_LETTERS)
            for (int code = 0; code < npow; ++code) {
                unsigned char h[8];
                int x = code, nref = 0, firstref = -1;
                for (int i = 0; i < hl; ++i, x /= OH_LETTERS) {
                    h[i] = (unsigned char)(x % OH_LETTERS);
                    if (h[i] >= 6) {
                        nref++;
                        if (firstref < 0)
                            firstref = i;
                    }
                }
                if (!mc_would_run()) {
                    mc_skip_case();
                    continue;
                }
                char d[8 * 48], one[48];
                size_t dl = 0;
                d[0] = 0;
                for (int i = 0; i < hl; ++i) {
                    objhist_letter(h[i], one, sizeof one);
                    dl += (size_t)snprintf(d + dl, sizeof d - dl, "%s%s", i ? "; " : "", one);
                }
                if (!mc_case("obj-hist k=%s one LengthPrefixBuffer: %s", kname[k], d))
                    continue;
                run_objhist(k, h, hl);
                mc_end(nref > 0, nref == 0 ? "objhist-no-refusal" : firstref == 0 ? "objhist-refused-first" : "objhist-refused-after-accept");
            }
        npow = 4;
        for (int hl = 1; hl <= H + 1; ++hl, npow *= 4)
            for (int code = 0; code < npow; ++code) {
                unsigned char h[8];
                int x = code, nref = 0;
                char d[64];
                for (int i = 0; i < hl; ++i, x /= 4) {
                    h[i] = (unsigned char)(x % 4);
                    nref += h[i] >= 2;
                    d[i] = "36MX"[h[i]];
                }
                d[hl] = 0;
                if (!mc_case("obj-hist k=%s one LengthPrefixChunks: chunks_use with list totals %s (3, 6 octets; M = max+1, X = 2^64-1: refused)", kname[k], d))
                    continue;
                run_objhist_chunks(k, h, hl);
                mc_end(nref > 0, nref ? "objhist-chunks-refusal" : "objhist-no-refusal");
            }
    }
}

/* ------------------------------------------------------------------------ */
/* Aliasing between the arguments of one call                                */
/* ------------------------------------------------------------------------ */

/* The statement designates the payload by the arguments of the call (a
 * pointer and a length; a buffer's unread content / first n unread octets
 * when the call is made) and speaks of "a sink" / "a source" without
 * restriction.  Admitted here, because the designated octets are not touched
 * by anybody during the call:
 *   - encoders into a sink that *appends to the very ByteBuffer* the payload
 *     is taken from (a staging buffer: message in front, frames appended
 *     behind the fill mark): memory_to_sink (memory = part of that buffer's
 *     content), buffer_to_sink, buffer_to_sink_n (also as a history of slices
 *     until the message is used up);
 *   - decoders whose source *reads the unread content of the very ByteBuffer*
 *     the payload is appended to (in-place de-framing), for all three
 *     decoders (decode_source_to_sink: source and sink on one ByteBuffer).
 * What is aliased is the MEMORY.  Sink and source are harness drivers with a
 * ByteBuffer descriptor *of their own* over that memory (append at its `used`,
 * read at its `offset`); the descriptor that is passed as the call's argument
 * is a second object, which nobody but the library touches during the call (a
 * library that works on a local copy of its argument descriptor and writes it
 * back is legitimate: no sentence says the argument may change under the
 * library's hands).  Between calls the harness carries the fill mark / read
 * position from one descriptor over to the other, like a caller who knows what
 * his driver did.
 * Not admitted (no sentence covers them; the repository's code does not
 * survive them either, and could not without extra storage): a sink that
 * appends to one of the chunks of the list being framed (the list's total is
 * a moving target), a prefix object whose own payload view is the buffer
 * argument, a decode destination that overlaps the unread stream. */
struct bufdrv {
    ByteBuffer *b; /* the driver's own descriptor, never an argument of the call under test */
    long calls, refused;
};

static ssize_t
bd_put_chunk(void *drv, const void *data, size_t n)
{
    struct bufdrv *d = drv;
    ByteBuffer *b = d->b;
    d->calls++;
    if (b->used > b->size || n > b->size - b->used) {
        d->refused++;
        return -ENOMEM;
    }
    memmove(b->data + b->used, data, n);
    b->used += n;
    return (ssize_t)n;
}

static int
bd_put_octet(void *drv, unsigned char c)
{
    return (int)bd_put_chunk(drv, &c, 1);
}

static ssize_t
bd_get_chunk(void *drv, void *data, size_t n)
{
    struct bufdrv *d = drv;
    ByteBuffer *b = d->b;
    if (++d->calls > 4096) {
        d->refused++;
        return -EIO;
    }
    if (b->offset >= b->used)
        return -ENODATA;
    size_t m = b->used - b->offset;
    if (m > n)
        m = n;
    memmove(data, b->data + b->offset, m);
    b->offset += m;
    return (ssize_t)m;
}

static int
bd_get_octet(void *drv, void *data)
{
    return (int)bd_get_chunk(drv, data, 1);
}

/* One or more encoder calls whose sink appends to the buffer the payload is
 * taken from.  slices[0..ns): n of each call (buffer_to_sink: one call, the
 * whole unread content). */
static void
run_alias_enc(int k, enum ep ep, int sk, size_t lead, size_t msg, const size_t *slices, size_t ns, size_t slack)
{
    unsigned char pfx[10];
    size_t room = 0;
    for (size_t i = 0; i < ns; ++i)
        room += ref_prefix(k, slices[i], pfx) + slices[i];
    const size_t used0 = lead + msg, size = used0 + room + slack;
    unsigned char *mem = mc_exact(size);
    for (size_t i = 0; i < size; ++i)
        mem[i] = i < used0 ? pat(i) : old(i);
    ByteBuffer *b = mc_exact(sizeof *b);   /* the argument of the call */
    ByteBuffer *sb = mc_exact(sizeof *sb); /* the sink driver's descriptor over the same memory */
    *b = (ByteBuffer){ mem, size, used0, lead };
    *sb = *b;
    struct bufdrv d = { sb, 0, 0 };
    Sink s;
    if (sk)
        octet_sink_init(&s, bd_put_octet, &d);
    else
        chunk_sink_init(&s, bd_put_chunk, &d);
    const char *name = epname[ep];
    size_t consumed = 0;
    for (size_t i = 0; i < ns && !mc.cur_failed; ++i) {
        const size_t n = slices[i];
        const size_t off = lead + consumed, before = sb->used;
        unsigned char *want = mc_exact_copy(mem + off, n);
        ssize_t rc;
        /* the caller knows what his sink appended so far */
        *b = (ByteBuffer){ mem, size, before, off };
        sb->offset = off;
        mc_trans(1);
        if (ep == EP_MEM_SINK)
            rc = X_memory_to_sink(k, &s, mem + off, n);
        else if (ep == EP_BUF_SINK)
            rc = X_buffer_to_sink(k, &s, b);
        else
            rc = X_buffer_to_sink_n(k, &s, b, n);
        mc_log("%s call %zu (n=%zu): rc=%zd argument after: used=%zu offset=%zu; sink's fill mark %zu -> %zu, %ld sink calls, %ld refused for lack of room",
               name, i, n, rc, b->used, b->offset, before, sb->used, d.calls, d.refused);
        {
            /* what the sink appended: the memory behind its old fill mark (the driver
             * descriptor is the harness's own, the library cannot reach it) */
            struct rec r;
            memset(&r, 0, sizeof r);
            r.buf = mem + before;
            r.n = sb->used - before;
            r.cap = size - before;
            r.overflow = (size_t)d.refused; /* never with a conforming encoder: room was made for every frame */
            if (judge_sink(name, k, n, want, &r, rc) && ep == EP_BUF_SINK_N)
                check_advance(name, b, mem, size, before, off, n); /* advanced by n, otherwise as it was handed in */
        }
        free(want);
        if (ep == EP_BUF_SINK_N)
            consumed += n;
    }
    mc_log_hex("buffer", mem, size < 48 ? size : 48);
    free(b);
    free(sb);
    free(mem);
}

static void
enc_alias(size_t M)
{
    static const enum ep eps[3] = { EP_MEM_SINK, EP_BUF_SINK, EP_BUF_SINK_N };
    for (int k = 0; k < NKINDS; ++k)
        for (int sk = 0; sk < 2; ++sk)
            for (size_t lead = 0; lead < 2; ++lead)
                for (size_t slack = 0; slack < 2; ++slack) {
                    /* one call: every n <= msg <= M, and two longer payloads (prefixes of several octets) */
                    for (int e = 0; e < 3; ++e)
                        for (size_t msg = 1; msg <= M + 2; ++msg) {
                            const size_t m = msg == M + 1 ? 130 : msg == M + 2 ? 300 : msg;
                            for (size_t n = 1; n <= m; ++n) {
                                if (eps[e] == EP_BUF_SINK && n != m)
                                    continue;
                                if (m > M && n != m && n != m - 1)
                                    continue;
                                if (!mc_case("enc-alias k=%s ep=%s sink=%s-appending-to-the-source-buffer lead=%zu unread=%zu n=%zu slack=%zu",
                                             kname[k], epname[eps[e]], skname[sk], lead, m, n, slack))
                                    continue;
                                run_alias_enc(k, eps[e], sk, lead, m, &n, 1, slack);
                                mc_end(true, ref_verdict(k, n, true) == V_ACCEPT ? "alias-enc" : "alias-enc-refuse");
                            }
                        }
                    /* histories of slices: every composition of the message */
                    for (size_t msg = 2; msg <= M; ++msg)
                        for (uint32_t mask = 1; mask < (1u << (msg - 1)); ++mask) {
                            size_t sl[16], ns = 0, run = 0;
                            char txt[64];
                            size_t l = 0;
                            for (size_t i = 0; i < msg; ++i) {
                                run++;
                                if (i + 1 == msg || ((mask >> i) & 1u)) {
                                    l += (size_t)snprintf(txt + l, sizeof txt - l, "%s%zu", ns ? "+" : "", run);
                                    sl[ns++] = run;
                                    run = 0;
                                }
                            }
                            if (!mc_case("enc-alias k=%s ep=%s sink=%s-appending-to-the-source-buffer lead=%zu unread=%zu slices=%s slack=%zu",
                                         kname[k], epname[EP_BUF_SINK_N], skname[sk], lead, msg, txt, slack))
                                continue;
                            run_alias_enc(k, EP_BUF_SINK_N, sk, lead, msg, sl, ns, slack);
                            mc_end(true, "alias-enc-slices");
                        }
                }
}

/* Decoders whose source reads the unread content of the buffer the payload is
 * appended to.  The buffer holds `lead` consumed octets and a stream of
 * frames; room behind the fill mark: the payloads + slack, or one octet less
 * than the (single) frame needs. */
static void
run_alias_dec(int k, enum dec d, enum srckind sk, size_t lead, const size_t *lens, size_t nf, size_t slack, bool tight)
{
    unsigned char tmp[10];
    size_t sl = 0, sum = 0;
    for (size_t f = 0; f < nf; ++f) {
        sl += ref_prefix(k, lens[f], tmp) + lens[f];
        sum += lens[f];
    }
    const size_t used0 = lead + sl, size = tight ? used0 + sum - 1 : used0 + sum + slack;
    unsigned char *mem = mc_exact(size);
    for (size_t i = 0; i < size; ++i)
        mem[i] = old(i);
    size_t w = lead;
    for (size_t f = 0; f < nf; ++f)
        w += put_frame(mem + w, k, lens[f], f);
    unsigned char *orig = mc_exact_copy(mem, used0);
    /* three descriptors over the one memory: the source driver's (read position;
     * its fill mark is the end of the stream), the sink driver's (fill mark;
     * decode_source_to_sink) and the one passed as the argument of
     * buffer_from_source, which only the library touches during the call */
    ByteBuffer *b = mc_exact(sizeof *b), *rb = mc_exact(sizeof *rb), *wb = mc_exact(sizeof *wb);
    *b = (ByteBuffer){ mem, size, used0, lead };
    *rb = *b;
    *wb = *b;
    struct bufdrv rd = { rb, 0, 0 }, wr = { wb, 0, 0 };
    size_t fill = used0; /* fill mark of the buffer as the caller knows it */
    Source src;
    if (sk == SRC_OCTET)
        octet_source_init(&src, bd_get_octet, &rd);
    else
        chunk_source_init(&src, bd_get_chunk, &rd);
    Sink snk;
    chunk_sink_init(&snk, bd_put_chunk, &wr);
    const char *name = decname[d];
    for (size_t f = 0; f < nf; ++f) {
        const size_t len = lens[f], before = fill;
        ssize_t rc;
        /* the caller knows what his source consumed and what was appended so far */
        *b = (ByteBuffer){ mem, size, before, rb->offset };
        wb->used = before;
        bool desc_ok = true;
        mc_trans(1);
        if (d == D_MEM) {
            /* destination = the free space of that buffer; the caller does the bookkeeping */
            rc = X_memory_from_source(k, &src, mem + before, size - before);
            if (rc > 0 && (size_t)rc <= size - before)
                fill = before + (size_t)rc;
        } else if (d == D_BUF) {
            rc = X_buffer_from_source(k, &src, b);
            desc_ok = b->data == mem && b->size == size && b->used <= size;
            if (desc_ok)
                fill = b->used;
        } else {
            rc = X_decode_source_to_sink(k, &src, &snk);
            fill = wb->used;
        }
        mc_log("%s frame %zu (%zu octets): rc=%zd fill mark %zu -> %zu, source's read position %zu", name, f, len, rc, before, fill,
               rb->offset);
        if (rd.refused) {
            mc_fail("C13/hang", "%s: source call budget exceeded", name);
            break;
        }
        if (tight) {
            /* sink decoder: the out-of-room answer is the sink's and travels through
             * plumbing; any negative code (see run_dec) */
            if (d == D_SINK ? (rc >= 0 || fill > size) : rc != -ENOMEM)
                mc_fail(clause(name, "enomem"), "source reads the destination buffer's unread content; room for %zu, frame of %zu: rc=%zd, expected out-of-memory (%d)",
                        size - before, len, rc, -ENOMEM);
            break;
        }
        const bool kept = desc_ok && memcmp(mem, orig, used0) == 0;
        if (rc < 0 || (d != D_SINK && (size_t)rc != len) || !kept || fill != before + len
            || !payload_is(mem + before, len, f)) {
            mc_fail(clause(name, d == D_BUF ? "appends" : "returns-payload"),
                    "source reads the destination buffer's unread content: frame %zu of %zu (payload %zu octets) rc=%zd, fill mark %zu -> %zu, content before the old fill mark %s, payload %s behind it",
                    f, nf, len, rc, before, fill, kept ? "kept" : "changed",
                    (fill >= before + len && fill <= size && payload_is(mem + before, len, f)) ? "is" : "is not");
            break;
        }
    }
    mc_log_hex("buffer", mem, size < 48 ? size : 48);
    free(b);
    free(rb);
    free(wb);
    free(orig);
    free(mem);
}

static void
dec_alias(size_t L)
{
    for (int k = 0; k < NKINDS; ++k)
        for (int d = 0; d < 3; ++d)
            for (int sk = 0; sk < 2; ++sk)
                for (size_t lead = 0; lead <= 2; lead += 2) {
                    for (size_t nf = 1; nf <= 2; ++nf)
                        for (size_t l0 = 1; l0 <= L + 1; ++l0)
                            for (size_t l1 = 1; l1 <= (nf > 1 ? L : 1); ++l1)
                                for (size_t slack = 0; slack < 2; ++slack) {
                                    const size_t lens[2] = { l0 > L ? 130 : l0, l1 };
                                    if (!mc_case("dec-alias k=%s dec=%s source=%s-reading-the-destination-buffer lead=%zu frames=[%zu%s%.0zu] slack=%zu",
                                                 kname[k], decname[d], sk ? "octet" : "chunk", lead, lens[0], nf > 1 ? "," : "",
                                                 nf > 1 ? lens[1] : (size_t)0, slack))
                                        continue;
                                    run_alias_dec(k, (enum dec)d, (enum srckind)sk, lead, lens, nf, slack, false);
                                    mc_end(true, "alias-dec");
                                }
                    for (size_t l0 = 1; l0 <= L; ++l0) {
                        if (!mc_case("dec-alias k=%s dec=%s source=%s-reading-the-destination-buffer lead=%zu frames=[%zu] room=%zu",
                                     kname[k], decname[d], sk ? "octet" : "chunk", lead, l0, l0 - 1))
                            continue;
                        run_alias_dec(k, (enum dec)d, (enum srckind)sk, lead, &l0, 1, 0, true);
                        mc_end(true, "alias-dec-enomem");
                    }
                }
}

/* ------------------------------------------------------------------------ */
/* Stacked endpoints: the driver of the endpoint uses the library itself     */
/* ------------------------------------------------------------------------ */

/* A sink or source is whatever its driver makes it, and a driver may sit on
 * top of another endpoint that it reaches through this very library
 * (tunnelling a framed stream through a framed stream, a sink that reports
 * progress as framed records, a source that polls a framed side channel).
 * The statement quantifies over every such sink and source: each call is owed
 * its frame / its payload, the outer one as well as the one made from inside
 * the driver while the outer one is in progress.  So every entry point that
 * takes an endpoint is run with a driver that calls an entry point of the
 * library on *lower* endpoints (objects of its own) before or after doing its
 * job, at its first, its second, or at each of its first eight calls:
 *   own      the lower call has a payload / stream of its own (2 or 200 octets)
 *   tunnel   sink driver: the lower call frames exactly what the driver was
 *            handed (pointer and count, as handed); source driver: what it
 *            hands out it first decodes from a lower stream that carries the
 *            outer stream in pieces, one frame per piece.
 * Both calls are judged by the oracle of their entry point.
 *
 * That demands RE-ENTRANCY of the library, on which the statement has no
 * sentence: an implementation that keeps, say, the prefix it is emitting in a
 * `static` object (small stacks) frames every payload correctly for every sink
 * that does not call back into the library, and garbles the outer frame when
 * one does.  So the families are gated like dec-huge: a start-up probe
 * (reent_probe) runs the small stacked executions once with the lower calls
 * and, where that fails, once without them; if an execution is only wrong when
 * a lower call is made from inside a driver, the library is not re-entrant, the
 * reent-* cases are numbered but not run (class reent-not-run, a cap: the run
 * is not called exhaustive, exit 0) -- never a violation. */
enum iop { I_MEM_SINK, I_BUF_SINK, I_BUF_SINK_N, I_CHUNKS_SINK, I_MEM_ENC, I_BUF_ENC, I_BUF_ENC_N, I_CHUNKS_USE,
           I_MEM_DEC, I_BUF_DEC, I_SINK_DEC, I_NOPS };
static const char *const iopname[I_NOPS] = { "memory_to_sink", "buffer_to_sink", "buffer_to_sink_n", "chunks_to_sink",
                                             "memory_encode", "buffer_encode", "buffer_encode_n", "chunks_use",
                                             "memory_from_source", "buffer_from_source", "decode_source_to_sink" };
#define INNER_EVERY 8

struct inner {
    int op, k;
    size_t own;     /* > 0: length of the lower layer's own payload; 0: tunnel */
    int order;      /* 0: lower call first, then the driver's own job; 1: the other way round */
    int trigger;    /* index of the driver call that makes the lower call; < 0: each of the first INNER_EVERY */
    int low_octet;  /* lower endpoint is octet style */
    long calls, done;
    unsigned char *blk;    /* own payload: 1 octet in front, `own` octets, 1 behind */
    unsigned char *stream; /* own frame for the lower decoders */
    size_t slen;
};

static void
inner_setup(struct inner *in)
{
    in->calls = in->done = 0;
    in->blk = NULL;
    in->stream = NULL;
    in->slen = 0;
    in->low_octet = (in->op + in->k + (int)(in->own & 1u)) & 1;
    if (in->own) {
        in->blk = mc_exact(in->own + 2u);
        in->blk[0] = 0xca;
        for (size_t i = 0; i < in->own; ++i)
            in->blk[1 + i] = pat(91u + i);
        in->blk[1 + in->own] = 0xcb;
        if (in->op >= I_MEM_DEC && in->own <= ref_max(in->k)) {
            in->stream = mc_exact(in->own + 10u);
            in->slen = ref_prefix(in->k, in->own, in->stream);
            memcpy(in->stream + in->slen, in->blk + 1, in->own);
            in->slen += in->own;
        }
    }
}

static void
inner_free(struct inner *in)
{
    free(in->blk);
    free(in->stream);
}

static bool
inner_fires(const struct inner *in, long idx)
{
    return in->trigger < 0 ? idx < INNER_EVERY : idx == in->trigger;
}

/* one lower decode of a frame that carries `expect[0..n)`; the payload is left in out[0..n) */
static void
inner_decode(int op, int k, Source *src, const unsigned char *expect, size_t n, unsigned char *out, size_t outcap)
{
    const char *name = iopname[op];
    ssize_t rc;
    bool good;
    mc_trans(1);
    if (op == I_MEM_DEC) {
        unsigned char *dst = mc_exact(n);
        rc = X_memory_from_source(k, src, dst, n);
        good = rc >= 0 && (size_t)rc == n && memcmp(dst, expect, n) == 0;
        if (n <= outcap)
            memcpy(out, dst, n);
        free(dst);
    } else if (op == I_BUF_DEC) {
        unsigned char *mem = mc_exact(2u + n);
        mem[0] = old(0);
        mem[1] = old(1);
        ByteBuffer b = { mem, 2u + n, 2, 1 };
        rc = X_buffer_from_source(k, src, &b);
        good = rc >= 0 && (size_t)rc == n && b.used == 2u + n && b.offset == 1 && b.data == mem && mem[0] == old(0)
            && mem[1] == old(1) && memcmp(mem + 2, expect, n) == 0;
        if (n <= outcap)
            memcpy(out, mem + 2, n);
        free(mem);
    } else {
        struct rec r;
        cap_init(&r, n);
        Sink s;
        chunk_sink_init(&s, cap_chunk, &r);
        rc = X_decode_source_to_sink(k, src, &s);
        good = rc >= 0 && r.n == n && memcmp(r.buf, expect, n) == 0;
        if (n <= outcap)
            memcpy(out, r.buf, r.n < n ? r.n : n);
        free(r.buf);
    }
    mc_log("  lower call %s(%s) of a frame of %zu octets: rc=%zd", name, kname[k], n, rc);
    if (!good)
        mc_fail(clause(name, "returns-payload"), "call made from inside a driver of the outer call: frame of %zu octets (%s), room for %zu: rc=%zd, payload %s",
                n, kname[k], n, rc, rc >= 0 ? "not returned intact" : "not returned");
}

/* the lower call; handed/hn: what the driver was handed (tunnel) */
static void
inner_run(struct inner *in, const unsigned char *handed, size_t hn)
{
    if (in->op >= I_MEM_DEC && in->own > ref_max(in->k))
        return; /* no frame of this kind is that long: nothing to decode */
    in->done++;
    const int k = in->k;
    const char *name = iopname[in->op];
    unsigned char *base = in->own ? in->blk : (unsigned char *)(uintptr_t)handed;
    const size_t lead = in->own ? 1 : 0, tail = in->own ? 1 : 0;
    const size_t n = in->own ? in->own : hn;
    unsigned char *want = mc_exact_copy(base + lead, n); /* the designated octets, as they are when the call is made */
    mc_log("  lower call %s(%s) from inside driver call %ld, payload %s, %zu octets", name, kname[k], in->calls - 1,
           in->own ? "of its own" : "= what the driver was handed", n);
    if (in->op >= I_MEM_DEC) {
        struct src drv;
        src_init(&drv, in->stream, in->slen, NULL);
        Source src;
        make_source(&src, &drv, in->low_octet ? SRC_OCTET : SRC_CHUNK);
        unsigned char dummy[1];
        inner_decode(in->op, k, &src, in->blk + 1, n, dummy, 0);
        free(want);
        return;
    }
    mc_trans(1);
    const size_t h2 = n / 2, h1 = n - h2;
    ByteBuffer arr[2] = { { base, lead + h1, lead + h1, lead }, { base + lead + h1, h2 + tail, h2, 0 } };
    if (in->op <= I_CHUNKS_SINK) {
        struct rec r;
        rec_init(&r, n + 10u);
        Sink s;
        rec_sink(&s, &r, in->low_octet);
        ssize_t rc;
        ByteBuffer b = { base, lead + n + tail, lead + n, lead };
        if (in->op == I_MEM_SINK) {
            rc = X_memory_to_sink(k, &s, base + lead, n);
        } else if (in->op == I_BUF_SINK) {
            rc = X_buffer_to_sink(k, &s, &b);
        } else if (in->op == I_BUF_SINK_N) {
            b.used = lead + n + tail;
            rc = X_buffer_to_sink_n(k, &s, &b, n);
            if (rc >= 0 && ref_verdict(k, n, true) == V_ACCEPT)
                check_advance(name, &b, base, lead + n + tail, lead + n + tail, lead, n);
        } else {
            ByteChunks bc = { h2 ? 2u : 1u, 0, arr };
            rc = X_chunks_to_sink(k, &s, &bc);
        }
        judge_sink(name, k, n, want, &r, rc);
        free(r.buf);
    } else if (in->op == I_CHUNKS_USE) {
        LengthPrefixChunks *lpc = mc_exact(sizeof *lpc);
        memset(lpc, 0, sizeof *lpc);
        lpc->payload = (ByteChunks){ h2 ? 2u : 1u, 0, arr };
        const int rc = X_chunks_use(k, lpc);
        judge_obj(name, k, n, NULL, lpc->prefix_, &lpc->prefix, NULL, rc);
        free(lpc);
    } else {
        LengthPrefixBuffer *lpb = mc_exact(sizeof *lpb);
        memset(lpb, 0, sizeof *lpb);
        ByteBuffer b = { base, lead + n + tail, lead + n, lead };
        int rc;
        if (in->op == I_MEM_ENC) {
            rc = X_memory_encode(k, lpb, base + lead, n);
        } else if (in->op == I_BUF_ENC) {
            rc = X_buffer_encode(k, lpb, &b);
        } else {
            b.used = lead + n + tail;
            rc = X_buffer_encode_n(k, lpb, &b, n);
        }
        if (judge_obj(name, k, n, base + lead, lpb->prefix_, &lpb->prefix, &lpb->payload, rc) && in->op == I_BUF_ENC_N)
            check_advance(name, &b, base, lead + n + tail, lead + n + tail, lead, n);
        free(lpb);
    }
    free(want);
}

static void
inner_desc(const struct inner *in, char *buf, size_t n)
{
    char trig[24];
    if (in->trigger < 0)
        snprintf(trig, sizeof trig, "each-of-the-first-%d", INNER_EVERY);
    else
        snprintf(trig, sizeof trig, "%d", in->trigger);
    if (in->own)
        snprintf(buf, n, "%s(%s, own payload of %zu octets, %s lower endpoint) %s its own job, in driver call %s", iopname[in->op],
                 kname[in->k], in->own, in->low_octet ? "octet" : "chunk", in->order ? "after" : "before", trig);
    else
        snprintf(buf, n, "%s(%s, what it was handed, %s lower endpoint) %s its own job, in driver call %s", iopname[in->op],
                 kname[in->k], in->low_octet ? "octet" : "chunk", in->order ? "after" : "before", trig);
}

/* ---- a sink whose driver uses the library -------------------------------- */
struct stack_sink {
    struct inner in;
    struct rec store; /* the driver's own job: keep what it is handed */
    int take_one;     /* chunk style: takes one octet of a longer request */
    long budget;
    bool over;
};

static ssize_t
ssk_chunk(void *drv, const void *data, size_t n)
{
    struct stack_sink *s = drv;
    const long idx = s->in.calls++;
    if (idx >= s->budget) {
        s->over = true;
        return -EIO;
    }
    const size_t m = (s->take_one && n > 1) ? 1u : n;
    const bool fire = inner_fires(&s->in, idx);
    if (fire && s->in.order == 0)
        inner_run(&s->in, data, m);
    struct rec *r = &s->store;
    const size_t room = r->cap - r->n;
    const size_t st = m < room ? m : room;
    memcpy(r->buf + r->n, data, st);
    r->n += st;
    r->overflow += m - st;
    if (fire && s->in.order == 1)
        inner_run(&s->in, data, m);
    return (ssize_t)m;
}

static int
ssk_octet(void *drv, unsigned char c)
{
    return (int)ssk_chunk(drv, &c, 1);
}

static const char *const stylename[3] = { "chunk", "chunk-taking-one-octet-per-call", "octet" };

static void
stack_sink_init(struct stack_sink *ss, Sink *s, int style, const struct inner *in, size_t expect)
{
    memset(ss, 0, sizeof *ss);
    ss->in = *in;
    inner_setup(&ss->in);
    rec_init(&ss->store, expect + 10u);
    ss->take_one = style == 1;
    ss->budget = 4 * (long)(expect + 10u) + 16;
    if (style == 2)
        octet_sink_init(s, ssk_octet, ss);
    else
        chunk_sink_init(s, ssk_chunk, ss);
}

/* outer call: one of the four sink encoders, layouts as in run_sinkbeh */
static bool
run_reent_enc(int k, enum ep ep, int style, size_t len, const struct inner *in)
{
    const size_t h2 = len / 2, h1 = len - h2;
    unsigned char *mem = mc_exact(len + 4u);
    for (size_t i = 0; i < len + 4u; ++i)
        mem[i] = pat(i);
    unsigned char *c0 = mc_exact(2), *c2 = mc_exact(2), *c3 = mc_exact(h2 ? h2 : 1);
    c0[0] = c0[1] = 0xcf;
    c2[0] = c2[1] = 0xce;
    for (size_t i = 0; i < h2; ++i)
        c3[i] = pat(1u + h1 + i);
    struct stack_sink ss;
    Sink s;
    stack_sink_init(&ss, &s, style, in, len);
    const char *name = epname[ep];
    const unsigned char *pay = mem + 1;
    unsigned char *joined = NULL;
    ssize_t rc;
    ByteBuffer b = { mem, len + 4u, len + 3u, 1 };
    mc_trans(1);
    if (ep == EP_MEM_SINK) {
        rc = X_memory_to_sink(k, &s, mem + 1, len);
    } else if (ep == EP_BUF_SINK) {
        b = (ByteBuffer){ mem, len + 2u, len + 1u, 1 };
        rc = X_buffer_to_sink(k, &s, &b);
    } else if (ep == EP_BUF_SINK_N) {
        rc = X_buffer_to_sink_n(k, &s, &b, len);
    } else {
        ByteBuffer arr[4] = { { c0, 2, 2, 1 }, { mem, 1u + h1, 1u + h1, 1 }, { c2, 2, 1, 1 }, { c3, h2 ? h2 : 1, h2, 0 } };
        ByteChunks bc = { h2 ? 4u : 3u, 1, arr };
        joined = mc_exact(len);
        memcpy(joined, mem + 1, h1);
        memcpy(joined + h1, c3, h2);
        pay = joined;
        rc = X_chunks_to_sink(k, &s, &bc);
    }
    mc_log("outer call %s(%s): %ld driver calls, %ld lower calls made from inside them", name, kname[k], ss.in.calls, ss.in.done);
    const bool nested = ss.in.done > 0;
    if (ss.over)
        mc_fail("C13/hang", "%s: sink call budget of %ld exceeded", name, ss.budget);
    else if (!CUR_FAILED()) {
        if (judge_sink(name, k, len, pay, &ss.store, rc) && ep == EP_BUF_SINK_N)
            check_advance(name, &b, mem, len + 4u, len + 3u, 1, len);
    }
    inner_free(&ss.in);
    free(ss.store.buf);
    free(joined);
    free(mem);
    free(c0);
    free(c2);
    free(c3);
    return nested;
}

/* ---- a source whose driver uses the library ------------------------------ */
#define STAGE 8
struct stack_src {
    struct inner in;
    const unsigned char *stream; /* what the outer call is to read */
    size_t len, pos;
    int take_one;
    long budget;
    bool over;
    /* tunnel: the outer stream arrives in frames of `piece` octets on a lower source */
    size_t piece;
    unsigned char *lowstream;
    struct src low;
    Source lowsrc;
    unsigned char stage[STAGE];
    size_t st_n, st_pos;
};

static ssize_t
ssr_chunk(void *drv, void *data, size_t n)
{
    struct stack_src *s = drv;
    const long idx = s->in.calls++;
    if (idx >= s->budget) {
        s->over = true;
        return -EIO;
    }
    if (s->pos >= s->len)
        return -ENODATA;
    size_t m = s->len - s->pos;
    if (m > n)
        m = n;
    if (s->take_one)
        m = 1;
    if (s->piece) {
        if (s->st_pos == s->st_n) {
            size_t pn = s->len - s->pos;
            if (pn > s->piece)
                pn = s->piece;
            s->in.done++;
            mc_log("  driver call %ld fetches the next %zu octets from the lower stream", idx, pn);
            memset(s->stage, 0xee, sizeof s->stage);
            inner_decode(s->in.op, s->in.k, &s->lowsrc, s->stream + s->pos, pn, s->stage, sizeof s->stage);
            s->st_n = pn;
            s->st_pos = 0;
        }
        if (m > s->st_n - s->st_pos)
            m = s->st_n - s->st_pos;
        memcpy(data, s->stage + s->st_pos, m);
        s->st_pos += m;
        s->pos += m;
        return (ssize_t)m;
    }
    const bool fire = inner_fires(&s->in, idx);
    if (fire && s->in.order == 0)
        inner_run(&s->in, NULL, 0);
    memcpy(data, s->stream + s->pos, m);
    s->pos += m;
    if (fire && s->in.order == 1)
        inner_run(&s->in, NULL, 0);
    return (ssize_t)m;
}

static int
ssr_octet(void *drv, void *data)
{
    return (int)ssr_chunk(drv, data, 1);
}

static void
stack_src_init(struct stack_src *ss, Source *src, int style, const struct inner *in, size_t piece,
               const unsigned char *stream, size_t len)
{
    memset(ss, 0, sizeof *ss);
    ss->in = *in;
    ss->stream = stream;
    ss->len = len;
    ss->take_one = style == 1;
    ss->budget = 4 * (long)len + 64;
    ss->piece = piece;
    if (piece) {
        /* the lower stream: the outer one in frames of `piece` octets */
        const size_t np = (len + piece - 1) / piece;
        ss->lowstream = mc_exact(len + 10u * np);
        size_t w = 0;
        for (size_t o = 0; o < len; o += piece) {
            const size_t pn = len - o < piece ? len - o : piece;
            w += ref_prefix(in->k, pn, ss->lowstream + w);
            memcpy(ss->lowstream + w, stream + o, pn);
            w += pn;
        }
        src_init(&ss->low, ss->lowstream, w, NULL);
        ss->in.low_octet = (in->op + in->k) & 1;
        make_source(&ss->lowsrc, &ss->low, ss->in.low_octet ? SRC_OCTET : SRC_CHUNK);
    } else {
        inner_setup(&ss->in);
    }
    if (style == 2)
        octet_source_init(src, ssr_octet, ss);
    else
        chunk_source_init(src, ssr_chunk, ss);
}

/* outer call: one decoder on one frame; side 0: its source is stacked, side 1
 * (decode_source_to_sink only): its sink is */
static bool
run_reent_dec(int k, enum dec d, int style, size_t len, const struct inner *in, size_t piece, int side)
{
    unsigned char *stream = mc_exact(len + 10u);
    const size_t sl = put_frame(stream, k, len, 0);
    struct stack_src ssr;
    struct stack_sink ssk;
    struct src plain;
    Source src;
    Sink snk;
    struct rec r;
    memset(&r, 0, sizeof r);
    if (side == 0) {
        stack_src_init(&ssr, &src, style, in, piece, stream, sl);
        if (d == D_SINK) {
            cap_init(&r, len);
            chunk_sink_init(&snk, cap_chunk, &r);
        }
    } else {
        src_init(&plain, stream, sl, NULL);
        make_source(&src, &plain, style == 2 ? SRC_OCTET : SRC_CHUNK);
        stack_sink_init(&ssk, &snk, style, in, len);
    }
    const char *name = decname[d];
    const size_t bused = 2, boff = 1;
    bool good;
    ssize_t rc;
    mc_trans(1);
    if (d == D_MEM) {
        unsigned char *dst = mc_exact(len);
        memset(dst, 0xee, len);
        rc = X_memory_from_source(k, &src, dst, len);
        mc_log_hex("destination-head", dst, len < 24 ? len : 24);
        good = rc >= 0 && (size_t)rc == len && payload_is(dst, len, 0);
        free(dst);
    } else if (d == D_BUF) {
        unsigned char *mem = mc_exact(bused + len);
        for (size_t i = 0; i < bused + len; ++i)
            mem[i] = old(i);
        ByteBuffer b = { mem, bused + len, bused, boff };
        rc = X_buffer_from_source(k, &src, &b);
        mc_log("buffer after: used=%zu offset=%zu", b.used, b.offset);
        good = rc >= 0 && (size_t)rc == len && b.used == bused + len && b.offset == boff && b.data == mem
            && mem[0] == old(0) && mem[1] == old(1) && payload_is(mem + bused, len, 0);
        free(mem);
    } else {
        rc = X_decode_source_to_sink(k, &src, &snk);
        const struct rec *got = side ? &ssk.store : &r;
        good = rc >= 0 && got->n == len && !got->overflow && payload_is(got->buf, len, 0);
    }
    const struct inner *fin = side ? &ssk.in : &ssr.in;
    mc_log("outer call %s(%s): rc=%zd, %ld driver calls of the stacked %s, %ld lower calls made from inside them", name, kname[k], rc,
           fin->calls, side ? "sink" : "source", fin->done);
    const bool nested = fin->done > 0;
    if (side ? ssk.over : ssr.over)
        mc_fail("C13/hang", "%s: driver call budget exceeded", name);
    else if (!good)
        mc_fail(clause(name, d == D_BUF ? "appends" : "returns-payload"),
                "frame of %zu octets through a %s whose driver uses the library itself: rc=%zd, payload not returned intact", len,
                side ? "sink" : "source", rc);
    if (side == 0) {
        if (!piece)
            inner_free(&ssr.in);
        free(ssr.lowstream);
        free(r.buf);
    } else {
        inner_free(&ssk.in);
        free(ssk.store.buf);
    }
    free(stream);
    return nested;
}

/* every lower call x where/when it is made */
typedef void (*inner_fn)(const struct inner *, void *);

static void
for_inner(bool sink_side, int ntrig, const size_t *owns, int nown, inner_fn fn, void *arg)
{
    struct inner in;
    memset(&in, 0, sizeof in);
    for (int io = 0; io < nown; ++io)
        for (int op = 0; op < I_NOPS; ++op)
            for (int ik = 0; ik < NFLENP; ++ik)
                for (int order = 0; order < 2; ++order)
                    for (int trig = -1; trig < ntrig; ++trig) {
                        in.op = op;
                        in.k = ik;
                        in.own = owns[io];
                        in.order = order;
                        in.trigger = trig;
                        fn(&in, arg);
                    }
    if (!sink_side)
        return;
    /* tunnel: frame what the driver was handed */
    for (int op = I_MEM_SINK; op <= I_CHUNKS_SINK; ++op)
        for (int ik = 0; ik < NFLENP; ++ik)
            for (int order = 0; order < 2; ++order)
                for (int trig = -1; trig < ntrig; ++trig) {
                    in.op = op;
                    in.k = ik;
                    in.own = 0;
                    in.order = order;
                    in.trigger = trig;
                    fn(&in, arg);
                }
}

struct reent_outer {
    int k, style, side;
    enum ep ep;
    enum dec d;
    size_t len;
};

/* ---- is the library re-entrant at all? ------------------------------------ */
static bool reent_runnable = true;

static void
reent_not_run(void)
{
    mc_log("not run: the start-up probe found an execution that is only wrong when a driver calls the library again (the library is not re-entrant; the statement does not say it is)");
    mc_end(false, "reent-not-run");
}

struct reent_probe {
    struct reent_outer o;
    bool enc;
    size_t piece;
    long runs;
};

static bool
reent_probe_run(const struct reent_probe *p, const struct inner *in, size_t piece)
{
    probe_failed = false;
    if (p->enc)
        (void)run_reent_enc(p->o.k, p->o.ep, p->o.style, p->o.len, in);
    else
        (void)run_reent_dec(p->o.k, p->o.d, p->o.style, p->o.len, in, piece, p->o.side);
    return !probe_failed;
}

static void
reent_probe_case(const struct inner *in, void *arg)
{
    struct reent_probe *p = arg;
    if (!reent_runnable)
        return; /* decided */
    p->runs++;
    if (reent_probe_run(p, in, p->piece))
        return;
    /* wrong with the lower calls: and without them? */
    struct inner quiet = *in;
    quiet.trigger = INT_MAX; /* no driver call has that index: the lower call is never made */
    if (reent_probe_run(p, &quiet, 0))
        reent_runnable = false;
}

/* Every outer entry point x kind x driver style (lengths 3 and 300) with every
 * lower entry point x kind made before / after the driver's job in each of its
 * first eight calls (own payload of 2 octets; tunnelled), and the tunnelling
 * sources.  Runs outside any case, in every process, before the first reent
 * case is numbered; nothing it finds is reported. */
static void
reent_probe(void)
{
    const bool was_active = mc.active;
    mc.active = false; /* no log lines, no transition counts */
    probe_mode = true;
    static const size_t PL[2] = { 3, 300 }, OWN[1] = { 2 };
    static const enum ep eps[4] = { EP_MEM_SINK, EP_BUF_SINK, EP_BUF_SINK_N, EP_CHUNKS_SINK };
    struct reent_probe p;
    memset(&p, 0, sizeof p);
    p.enc = true;
    for (p.o.k = 0; reent_runnable && p.o.k < NKINDS; ++p.o.k)
        for (int e = 0; e < 4; ++e)
            for (p.o.style = 0; p.o.style < 3; ++p.o.style)
                for (int li = 0; li < 2; ++li) {
                    p.o.ep = eps[e];
                    p.o.len = PL[li];
                    for_inner(true, 0, OWN, 1, reent_probe_case, &p);
                }
    p.enc = false;
    for (p.o.k = 0; reent_runnable && p.o.k < NKINDS; ++p.o.k)
        for (int d = 0; d < 3; ++d)
            for (p.o.style = 0; p.o.style < 3; ++p.o.style)
                for (int li = 0; li < 2; ++li) {
                    p.o.d = (enum dec)d;
                    p.o.len = PL[li];
                    if (p.o.len > ref_max(p.o.k))
                        continue;
                    for (p.o.side = 0; p.o.side < (d == D_SINK ? 2 : 1); ++p.o.side) {
                        if (p.o.side && p.o.style == 1)
                            continue;
                        for_inner(p.o.side != 0, 0, OWN, 1, reent_probe_case, &p);
                    }
                    p.o.side = 0;
                    static const size_t PIECE[3] = { 1, 2, 5 };
                    for (int op = I_MEM_DEC; op <= I_SINK_DEC; ++op)
                        for (int ik = 0; ik < NFLENP; ++ik)
                            for (int pi = 0; pi < 3; ++pi) {
                                struct inner in;
                                memset(&in, 0, sizeof in);
                                in.op = op;
                                in.k = ik;
                                p.piece = PIECE[pi];
                                reent_probe_case(&in, &p);
                                p.piece = 0;
                            }
                }
    probe_mode = false;
    probe_failed = false;
    mc.active = was_active;
    if (!reent_runnable)
        mc_cap("the library is not re-entrant (an execution is only wrong when a sink/source driver calls the library again): reent-* cases not run");
}

/* One reent-* case under the probe's own rule (audit 6): the start-up probe
 * makes lower calls with an own payload of 2 octets only, so a library whose
 * non-reentrancy depends on the size of the lower call (a static staging buffer
 * used for payloads of a certain range) passes it.  The execution therefore runs
 * with failures noted, not reported; if it failed and nested calls were made, the
 * same execution is run again with the nested calls switched off; if that passes,
 * the execution is only wrong when a driver calls the library again: the library
 * is not re-entrant here, the case is not judged (class reent-not-reentrant, a
 * cap).  Otherwise the noted failure is reported. */
static void
reent_case_run(const struct reent_outer *o, bool enc, const struct inner *in, size_t piece, const char *outcome_nested)
{
    probe_mode = true;
    probe_failed = false;
    const bool nested = enc ? run_reent_enc(o->k, o->ep, o->style, o->len, in)
                            : run_reent_dec(o->k, o->d, o->style, o->len, in, piece, o->side);
    const bool failed = probe_failed;
    probe_mode = false;
    probe_failed = false;
    if (failed && nested) {
        char cl[sizeof probe_clause], det[sizeof probe_detail];
        memcpy(cl, probe_clause, sizeof cl);
        memcpy(det, probe_detail, sizeof det);
        struct inner quiet = *in;
        quiet.trigger = INT_MAX; /* no driver call has that index: the lower call is never made */
        const bool was_active = mc.active;
        mc.active = false;
        probe_mode = true;
        if (enc)
            (void)run_reent_enc(o->k, o->ep, o->style, o->len, &quiet);
        else
            (void)run_reent_dec(o->k, o->d, o->style, o->len, &quiet, 0, o->side);
        const bool quiet_ok = !probe_failed;
        probe_mode = false;
        probe_failed = false;
        mc.active = was_active;
        if (quiet_ok) {
            mc_log("not judged: with the lower calls this execution fails (%s: %s), without them it passes: the library is not re-entrant here (the statement does not say it is)",
                   cl, det);
            static bool said;
            if (!said)
                mc_cap("an execution is only wrong when a sink/source driver calls the library again (not re-entrant for these sizes): such reent-* cases not judged");
            said = true;
            mc_end(false, "reent-not-reentrant");
            return;
        }
        (mc_fail)(cl, "%s", det);
    } else if (failed) {
        (mc_fail)(probe_clause, "%s", probe_detail);
    }
    mc_end(nested, !nested ? "reent-not-reached" : outcome_nested);
}

static void
reent_enc_case(const struct inner *in, void *arg)
{
    const struct reent_outer *o = arg;
    if (!mc_would_run()) {
        mc_skip_case();
        return;
    }
    struct inner probe = *in;
    probe.low_octet = (in->op + in->k + (int)(in->own & 1u)) & 1;
    char d[200];
    inner_desc(&probe, d, sizeof d);
    if (!mc_case("reent-enc k=%s ep=%s sink=%s len=%zu; its driver calls %s", kname[o->k], epname[o->ep], stylename[o->style], o->len, d))
        return;
    if (!reent_runnable) {
        reent_not_run();
        return;
    }
    reent_case_run(o, true, in, 0, in->own ? "reent-enc" : "reent-enc-tunnel");
}

static void
reent_dec_case(const struct inner *in, void *arg)
{
    const struct reent_outer *o = arg;
    if (!mc_would_run()) {
        mc_skip_case();
        return;
    }
    struct inner probe = *in;
    probe.low_octet = (in->op + in->k + (int)(in->own & 1u)) & 1;
    char d[200];
    inner_desc(&probe, d, sizeof d);
    if (!mc_case("reent-dec k=%s dec=%s %s=%s len=%zu; its driver calls %s", kname[o->k], decname[o->d],
                 o->side ? "sink" : "source", stylename[o->style], o->len, d))
        return;
    if (!reent_runnable) {
        reent_not_run();
        return;
    }
    reent_case_run(o, false, in, 0, o->side ? "reent-dec-sink" : "reent-dec");
}

static void
reentrancy(bool T)
{
    static const size_t LQ[] = { 1, 3, 300 }, LT[] = { 1, 2, 3, 130, 300, 65535 };
    static const size_t OQ[] = { 2, 200 }, OT[] = { 1, 2, 200, 300 };
    const size_t *L = T ? LT : LQ, *O = T ? OT : OQ;
    const int nL = T ? 6 : 3, nO = T ? 4 : 2, ntrig = T ? 4 : 2;
    static const enum ep eps[4] = { EP_MEM_SINK, EP_BUF_SINK, EP_BUF_SINK_N, EP_CHUNKS_SINK };
    struct reent_outer o;
    memset(&o, 0, sizeof o);
    reent_probe();
    for (o.k = 0; o.k < NKINDS; ++o.k)
        for (int e = 0; e < 4; ++e)
            for (o.style = 0; o.style < 3; ++o.style)
                for (int li = 0; li < nL; ++li) {
                    o.ep = eps[e];
                    o.len = L[li];
                    for_inner(true, ntrig, O, nO, reent_enc_case, &o);
                }
    for (o.k = 0; o.k < NKINDS; ++o.k)
        for (int d = 0; d < 3; ++d)
            for (o.style = 0; o.style < 3; ++o.style)
                for (int li = 0; li < nL; ++li) {
                    o.d = (enum dec)d;
                    o.len = L[li];
                    if (o.len > ref_max(o.k))
                        continue;
                    for (o.side = 0; o.side < (d == D_SINK ? 2 : 1); ++o.side) {
                        if (o.side && o.style == 1)
                            continue; /* sts_n hands a sink one octet at a time anyway */
                        for_inner(o.side != 0, ntrig, O, nO, o.side ? reent_dec_case : reent_dec_case, &o);
                    }
                    o.side = 0;
                    /* tunnel: what the source hands out it decodes from a lower stream */
                    static const size_t PIECE[3] = { 1, 2, 5 };
                    for (int op = I_MEM_DEC; op <= I_SINK_DEC; ++op)
                        for (int ik = 0; ik < NFLENP; ++ik)
                            for (int pi = 0; pi < 3; ++pi) {
                                if (!mc_case("reent-dec k=%s dec=%s source=%s len=%zu; its driver obtains what it hands out with %s(%s) from a lower %s source carrying the stream in frames of %zu octets",
                                             kname[o.k], decname[d], stylename[o.style], o.len, iopname[op], kname[ik],
                                             ((op + ik) & 1) ? "octet" : "chunk", PIECE[pi]))
                                    continue;
                                if (!reent_runnable) {
                                    reent_not_run();
                                    continue;
                                }
                                struct inner in;
                                memset(&in, 0, sizeof in);
                                in.op = op;
                                in.k = ik;
                                o.d = (enum dec)d;
                                reent_case_run(&o, false, &in, PIECE[pi], "reent-dec-tunnel");
                            }
                }
}

int
main(int argc, char **argv)
{
    mc_init(argc, argv);
    anchors();
    const bool T = mc_thorough();
    ARENA = mmap(NULL, ARENA_SIZE, PROT_READ | PROT_WRITE, MAP_PRIVATE | MAP_ANONYMOUS | MAP_NORESERVE, -1, 0);
    if (ARENA == MAP_FAILED)
        mc_broken("cannot reserve %llu octets of address space", (unsigned long long)ARENA_SIZE);
    enc_small(T ? 8 : 6);
    enc_refuse_n(T ? 6 : 4);
    enc_chunks(T ? 4 : 3, T ? 3 : 2);
    enc_sinkbeh(T ? 5 : 3, T ? 6 : 4, T ? 8 : 6, T ? 3 : 2);
    enc_long();
    enc_max();
    enc_sum();
    enc_alias(T ? 6 : 4);
    dec_small(T ? 8 : 6);
    dec_long();
    dec_max();
    dec_huge();
    dec_huge_sink();
    streams(T ? 16 : 12);
    for_shapes(T ? 13 : 10, shape_getbuffer);
    stream_two_cuts();
    streams_octet(T ? 16 : 12);
    dec_alias(T ? 5 : 3);
    reentrancy(T);
    enc_objhist(T ? 4 : 3);
    char bound[4200];
    snprintf(bound, sizeof bound,
             "6 kinds + the varint kind through the lenp_* entry points of the header (all families); encoders: buffer states size<=%d x n<=rest, chunk lists <=%d chunks (rest 0..3, lead/slack 0..1, active<=%d), "
             "lengths 1..1100 + 65534..65536, maxima 2^31,2^32,SSIZE_MAX +-1 via fake buffers (also into a sink whose first call takes "
             "1, 2^31, 2^32-11, 2^32-4, 2^32-5 or 2^32 octets; accepting sink-encoder cases only if a probe finds that the sink is handed the caller's memory); _n requests beyond every maximum and beyond the content (256 .. SIZE_MAX, "
             "each straddling 2^32, SSIZE_MAX, SIZE_MAX by the buffer size) on every buffer state size<=%d (refused, then a second slice; "
             "or exactly the unread octets framed); "
             "sink encoders with lengths <=%d into chunk/octet sinks under every placement of <=%d answers from {1, asked-1, 0, EINTR, EAGAIN} "
             "over the first %d/%d calls; decoders: buffer states size<=%d, "
             "lengths 1..1100 x cap len-1..len+1, maxima vs real capacities 1 and 7, accepting decodes of 2^32-3 .. 2^33 octets with a first "
             "read of 1, 2^31, 2^32-11, 2^32-4, 2^32-5, 2^32, 2^33-4 octets (judged where the decoder delivers in place); streams of 1..3 frames with <=%d octets under all 2^(L-1) "
             "fragmentations (streams <=%d octets also from a source offering a scratch block of 1, 3, 8 octets, sink decoder), "
             "130-octet stream under all <=2-cut fragmentations, octet source; "
             "chunk lists of 2..4 equal chunks whose unread octets add up to 2^31-1, 2^31, 2^31+5, 0x90000000, 2^32-1, 2^32, 2^32+5, 0x180000000; "
             "aliasing: the three memory/buffer sink encoders into a sink appending to the source buffer (unread <=%d and 130, 300; every n; every "
             "composition of the unread octets as a history of _n slices), the three decoders from a source reading the destination buffer's unread "
             "content (1..2 frames, lengths <=%d and 130; room exact, +1, -1); "
             "stacked endpoints: the four sink encoders (lengths %s; chunk sink, chunk sink taking one octet per call, octet sink) and the three decoders "
             "(same lengths; source of the three styles; decode_source_to_sink also with a stacked sink) with a driver that calls one of the 11 entry points "
             "(6 kinds, own payload of %s octets, or - sink drivers, the four sink encoders - exactly what it was handed) on lower endpoints before or after "
             "its own job in its driver call 0..%d or in each of the first 8; sources that decode what they hand out from a lower stream carrying the outer "
             "stream in frames of 1, 2, 5 octets (3 decoders x 6 kinds) - stacked endpoints only if a start-up probe finds the library re-entrant, a failing case re-run without the nested calls and not judged if it then passes; "
             "prefix-object histories: every sequence of <= %d calls on one LengthPrefixBuffer over {memory_encode, buffer_encode, buffer_encode_n} x "
             "{1, 5 octets accepted; maximum+1, 2^64-1 octets refused} and of <= %d chunks_use calls on one LengthPrefixChunks (list totals 3, 6, maximum+1, "
             "2^64-1), the object inspected after every refused call",
             T ? 8 : 6, T ? 4 : 3, T ? 3 : 2, T ? 6 : 4, T ? 5 : 3, T ? 3 : 2, T ? 6 : 4, T ? 8 : 6, T ? 8 : 6, T ? 16 : 12, T ? 13 : 10,
             T ? 6 : 4, T ? 5 : 3, T ? "1, 2, 3, 130, 300, 65535" : "1, 3, 300", T ? "1, 2, 200, 300" : "2, 200", T ? 3 : 1, T ? 4 : 3, T ? 5 : 4);
    mc_finish(true, bound);
    return 0;
}
