/*
 * C05 -- register constraints are an invariant of every checked-operation
 * history; sanitise re-establishes it after arbitrary corruption.
 *
 * Part 1 (E-STATE, to fixpoint): state = (full storage image, touched marks).
 * Operations: typed set, bit set, bit clear (each register x boundary
 * operands incl. wrong type), block write (every window x boundary patterns),
 * sanitise.  Lock-step with the flat model of regtab.h; the model state is
 * the image itself (a successor is only stored after it agreed with the
 * model's prediction).
 *
 * Part 2 (E-SPACE): from clean states spread over the reachable set, EVERY
 * image over a per-word corruption alphabet is written out of band and
 * register_sanitise is called once -- without a fault and, on callback-backed
 * tables, once per single fault position (k-th read / k-th write callback
 * answers IO_ERROR).
 *
 * Tables: the original nine (+3 thorough) and
 *   12,13  registers in write-only areas (partial block writes over content
 *          the library has to fetch although the area is not readable)
 *   14,15  areas flagged REG_AF_SKIP_DEFAULTS (memory / callback-backed)
 *   16     an area without write callback in front of a writable one
 *   17     an unconstrained f64 next to a constrained register
 *   20..26 three adjacent two-word areas, every non-empty subset of them
 *          holding registers, the others entry-less
 *   33..38 (thorough) the same with two registers in the second / third area
 *   40,41  tables at the TOP OF THE ADDRESS SPACE (last word 0xffffffff, the
 *          last area and its last register end at 2^32): table 0 moved up;
 *          a callback-backed RW area followed by a read-only memory area
 *          whose u32 register occupies the last two words.  Block-write
 *          windows: every (address, length) from one below the first area up
 *          to 0xffffffff with address + length <= 2^32 (nothing wraps); the
 *          reference forms every exclusive end in 64 bits.  Part 2 for both.
 *
 * Ownership: which typed sets and block writes are accepted, and that a block
 * write marks the overlapped registers, are sentences of C01 / C02.  Where the
 * library disagrees with the reference there, this harness judges only what
 * C05 says (refused => no word changed; accepted => the constrained registers
 * still satisfy their constraints) and does not explore the successor.  Words
 * that belong to no register are nobody's value: after a typed set, a bit
 * operation and sanitise only register words are compared.  A table that
 * register_init refuses ends as a trivial case (C04's sentence).  So does a
 * one-fault environment operation after which the table is wholly or partly out
 * of service (any non-success answer to a zero-length block read or to a
 * full-extent block read of one of its areas, faults disarmed:
 * latched-after-fault: no statement mentions driver I/O errors; successor not
 * explored).  Part 2 on a table with a register in an area that is not flagged
 * readable (sanitise-unspecified, as in part 1): no return code is demanded;
 * registers in readable and writable areas are still judged on storage, marks
 * and invariant, the others only on "a valid value is kept".
 *
 * State: the key is (storage image, image of the RegisterTable object, of the
 * area array and of the entry array, touched marks cleared).  tab_from_key
 * restores all of it, so nothing a transition leaves in those objects (e.g.
 * after an injected fault) leaks into a transition whose path does not contain
 * it; hidden residue is a state of its own, reached by its own path.  A table
 * whose object images never repeat (change counters ...) would never reach a
 * fixpoint: the search of a table stops at once, with a recorded cap, when the
 * state set exceeds 2^(areas + 1) x the number of distinct storage images + 64.
 */
#include "mc.h"
#include "regtab.h"

#define MAXVALS 12

/* table ids; the id is also the partition number / case-number base */
static const int QUICK_IDS[] = { 0, 1, 2, 3, 4, 5, 6, 7, 8, 12, 13, 14, 15, 16, 17, 20, 21, 22, 23, 24, 25, 26, 40, 41 };
static const int THOROUGH_IDS[] = { 0, 1, 2, 3, 4, 5, 6, 7, 8, 9, 10, 11, 12, 13, 14, 15, 16, 17, 20, 21, 22, 23, 24, 25, 26, 40, 41, 37, 36, 34, 33, 35, 38 };
#define CORRUPTION_BASE 64
/* table-object variants per storage image tolerated before a search is given up:
 * room for one bit of bookkeeping per area and one for the table (a latch, a
 * dirty bit, "has seen an I/O error"): 2^(areas + 1) */
#define STATE_FACTOR ((int64_t)2 << spec.na)

static struct tab tb;
static struct tspec spec;
static RegisterAtom g_init_image[RT_MAXW];
static bool g_has_fail;
static bool g_top; /* the table's last word is 0xffffffff */
static bool g_sanitise_unspec; /* what sanitise does to this table is not fixed by the statement (always-fail registers; registers in write-only areas) */
static unsigned g_corrupt_areas; /* mask of the areas part 2 corrupts */
static int nwords; /* total words of all areas */
static bool g_regword[RT_MAXW]; /* snapshot layout: the word belongs to a register */
static int g_word_reg[RT_MAXW]; /* snapshot layout: the register the word belongs to, -1 none */

static const char *
acc(RegisterAccessCode c)
{
    static const char *n[] = { "SUCCESS", "FAILURE", "UNINITIALISED", "NOENTRY", "RANGE", "INVALID", "READONLY", "IO_ERROR" };
    return (unsigned)c < 8 ? n[c] : "?";
}

/* ---- the four tables -------------------------------------------------------- */
static struct rspec
mkr(RegisterType t, uint32_t addr, int ck, uint64_t lo, uint64_t hi, uint64_t def)
{
    struct rspec r;
    memset(&r, 0, sizeof r);
    r.type = t;
    r.addr = addr;
    r.ckind = ck;
    r.lo = ref_from_bits(t, lo);
    r.hi = ref_from_bits(t, hi);
    r.def = ref_from_bits(t, def);
    return r;
}

static uint64_t
fb(float f)
{
    uint32_t x;
    memcpy(&x, &f, 4);
    return x;
}

static uint64_t
db(double d)
{
    uint64_t x;
    memcpy(&x, &d, 8);
    return x;
}

static void
make_table(int ti, struct tspec *s)
{
    memset(s, 0, sizeof *s);
    s->na = 1;
    switch (ti) {
    case 0: /* LE, memory: u16 range, u32 min, f32 range */
        s->be = false;
        s->a[0] = (struct aspec){ 0x10, 5, REG_AF_RW, false, false };
        s->nr = 3;
        s->r[0] = mkr(REG_TYPE_UINT16, 0x10, K_RANGE, 0x0100, 0x7f00, 0x0100);
        s->r[1] = mkr(REG_TYPE_UINT32, 0x11, K_MIN, 0x00010002, 0, 0x7fff0000);
        s->r[2] = mkr(REG_TYPE_FLOAT32, 0x13, K_RANGE, fb(-2.5f), fb(1000.25f), fb(1.0f));
        break;
    case 1: /* BE, memory: s16 max, u64 max, u16 callback */
        s->be = true;
        s->a[0] = (struct aspec){ 0, 6, REG_AF_RW, false, false };
        s->nr = 3;
        s->r[0] = mkr(REG_TYPE_SINT16, 0, K_MAX, 0, 0xff00 /* -256 */, 0xfed4 /* -300 */);
        s->r[1] = mkr(REG_TYPE_UINT64, 1, K_MAX, 0, 0x0001000200030004ull, 0x0001000200030004ull);
        s->r[2] = mkr(REG_TYPE_UINT16, 5, K_CB, 0, 0, 0x0002);
        break;
    case 2: /* LE, callback-backed: s32 range, u16 unconstrained, gap word, u16 min */
        s->be = false;
        s->a[0] = (struct aspec){ 4, 5, REG_AF_RW, true, false };
        s->nr = 3;
        s->r[0] = mkr(REG_TYPE_SINT32, 4, K_RANGE, 0xfffeffffu /* -65537 */, 0x00010001, 0);
        s->r[1] = mkr(REG_TYPE_UINT16, 6, K_NONE, 0, 0, 0x1234);
        s->r[2] = mkr(REG_TYPE_UINT16, 8, K_MIN, 0x8000, 0, 0x8000);
        break;
    case 3: /* LE, callback-backed: f64 min, u16 max */
        s->be = false;
        s->a[0] = (struct aspec){ 2, 5, REG_AF_RW, true, false };
        s->nr = 2;
        s->r[0] = mkr(REG_TYPE_FLOAT64, 2, K_MIN, db(-1.5), 0, db(2.0));
        s->r[1] = mkr(REG_TYPE_UINT16, 6, K_MAX, 0, 0x00ff, 0x0010);
        break;
    case 4: /* BE, memory: s64 min, f32 unconstrained */
        s->be = true;
        s->a[0] = (struct aspec){ 1, 6, REG_AF_RW, false, false };
        s->nr = 2;
        s->r[0] = mkr(REG_TYPE_SINT64, 1, K_MIN, 0xffffffff00000001ull, 0, 0);
        s->r[1] = mkr(REG_TYPE_FLOAT32, 5, K_NONE, 0, 0, fb(0.0f));
        break;
    case 5: /* BE, memory + a read-only area behind it: u32 range, u16 callback | u16 range */
        s->be = true;
        s->na = 2;
        s->a[0] = (struct aspec){ 1, 3, REG_AF_RW, false, false };
        s->a[1] = (struct aspec){ 4, 2, REG_AF_READABLE, false, false };
        s->nr = 3;
        s->r[0] = mkr(REG_TYPE_UINT32, 1, K_RANGE, 0x00010002, 0x7ffe8001, 0x00010002);
        s->r[1] = mkr(REG_TYPE_UINT16, 3, K_CB, 0, 0, 4);
        s->r[2] = mkr(REG_TYPE_UINT16, 4, K_RANGE, 5, 10, 7);
        break;
    case 6: /* LE, two adjacent memory areas: s16 range | f32 max, s32 min */
        s->be = false;
        s->na = 2;
        s->a[0] = (struct aspec){ 0, 1, REG_AF_RW, false, false };
        s->a[1] = (struct aspec){ 1, 4, REG_AF_RW, false, false };
        s->nr = 3;
        s->r[0] = mkr(REG_TYPE_SINT16, 0, K_RANGE, 0xff00, 0x0100, 0);
        s->r[1] = mkr(REG_TYPE_FLOAT32, 1, K_MAX, 0, fb(8.0f), fb(-8.0f));
        s->r[2] = mkr(REG_TYPE_SINT32, 3, K_MIN, 0xffff0000u, 0, 5);
        /* s32 MAX below: see table 3 */
        break;
    case 8: /* LE, callback-backed, with an always-fail register: u16 fail, u16 range, u32 fail */
        s->be = false;
        s->a[0] = (struct aspec){ 0x20, 4, REG_AF_RW, true, false };
        s->nr = 3;
        s->r[0] = mkr(REG_TYPE_UINT16, 0x20, K_FAIL, 0, 0, 0x00aa);
        s->r[1] = mkr(REG_TYPE_UINT16, 0x21, K_RANGE, 5, 10, 7);
        s->r[2] = mkr(REG_TYPE_UINT32, 0x22, K_FAIL, 0, 0, 0x00010002);
        break;
    case 9: /* thorough: LE, callback-backed, three registers over seven words: s32 range, f64 min, u16 unconstrained */
        s->be = false;
        s->a[0] = (struct aspec){ 4, 7, REG_AF_RW, true, false };
        s->nr = 3;
        s->r[0] = mkr(REG_TYPE_SINT32, 4, K_RANGE, 0xfffeffffu /* -65537 */, 0x00010001, 0);
        s->r[1] = mkr(REG_TYPE_FLOAT64, 6, K_MIN, db(-1.5), 0, db(2.0));
        s->r[2] = mkr(REG_TYPE_UINT16, 10, K_NONE, 0, 0, 0x1234);
        break;
    case 10: /* thorough: BE, memory + read-only area: s64 min, u32 range, f32 unconstrained | u16 range */
        s->be = true;
        s->na = 2;
        s->a[0] = (struct aspec){ 1, 8, REG_AF_RW, false, false };
        s->a[1] = (struct aspec){ 9, 2, REG_AF_READABLE, false, false };
        s->nr = 4;
        s->r[0] = mkr(REG_TYPE_SINT64, 1, K_MIN, 0xffffffff00000001ull, 0, 0);
        s->r[1] = mkr(REG_TYPE_UINT32, 5, K_RANGE, 0x00010002, 0x7ffe8001, 0x00010002);
        s->r[2] = mkr(REG_TYPE_FLOAT32, 7, K_NONE, 0, 0, fb(0.0f));
        s->r[3] = mkr(REG_TYPE_UINT16, 9, K_RANGE, 5, 10, 7);
        break;
    case 11: /* thorough: LE, memory, signed bounds below zero: s32 max -2, s64 range [-2^32-1, -3], s16 min -1 */
        s->be = false;
        s->a[0] = (struct aspec){ 0x7ffe, 7, REG_AF_RW, false, false };
        s->nr = 3;
        s->r[0] = mkr(REG_TYPE_SINT32, 0x7ffe, K_MAX, 0, 0xfffffffeu, 0xfffffff0u);
        s->r[1] = mkr(REG_TYPE_SINT64, 0x8000, K_RANGE, 0xfffffffeffffffffull, 0xfffffffffffffffdull, 0xfffffffffffffffdull);
        s->r[2] = mkr(REG_TYPE_SINT16, 0x8004, K_MIN, 0xffff, 0, 0);
        break;
    case 12: /* LE, memory: u16 range | write-only area: u32 max, s32 range */
        s->be = false;
        s->na = 2;
        s->a[0] = (struct aspec){ 0x10, 1, REG_AF_RW, false, false };
        s->a[1] = (struct aspec){ 0x11, 4, REG_AF_WRITEABLE, false, false };
        s->nr = 3;
        s->r[0] = mkr(REG_TYPE_UINT16, 0x10, K_RANGE, 0x0100, 0x7f00, 0x0100);
        s->r[1] = mkr(REG_TYPE_UINT32, 0x11, K_MAX, 0, 0x7ffe8001, 0x00010002);
        s->r[2] = mkr(REG_TYPE_SINT32, 0x13, K_RANGE, 0xfffeffffu /* -65537 */, 0x00010001, 0);
        break;
    case 13: /* BE, callback-backed write-only area: u64 min, u16 max */
        s->be = true;
        s->a[0] = (struct aspec){ 2, 5, REG_AF_WRITEABLE, true, false };
        s->nr = 2;
        s->r[0] = mkr(REG_TYPE_UINT64, 2, K_MIN, 0x0000000100020003ull, 0, 0x7ffe800180028003ull);
        s->r[1] = mkr(REG_TYPE_UINT16, 6, K_MAX, 0, 0x00ff, 0x0010);
        break;
    case 14: /* LE, memory, SKIP_DEFAULTS area (zero content is valid, defaults are not zero): u16 max, s32 range | plain area: u16 range, u16 unconstrained */
        s->be = false;
        s->na = 2;
        s->a[0] = (struct aspec){ 1, 3, REG_AF_RW | REG_AF_SKIP_DEFAULTS, false, false };
        s->a[1] = (struct aspec){ 4, 2, REG_AF_RW, false, false };
        s->nr = 4;
        s->r[0] = mkr(REG_TYPE_UINT16, 1, K_MAX, 0, 0x7f00, 0x0100);
        s->r[1] = mkr(REG_TYPE_SINT32, 2, K_RANGE, 0xfffeffffu /* -65537 */, 0x00010001, 5);
        s->r[2] = mkr(REG_TYPE_UINT16, 4, K_RANGE, 5, 10, 7);
        s->r[3] = mkr(REG_TYPE_UINT16, 5, K_NONE, 0, 0, 0x1234);
        break;
    case 15: /* BE, callback-backed SKIP_DEFAULTS area: f32 range, u16 max */
        s->be = true;
        s->a[0] = (struct aspec){ 8, 3, REG_AF_RW | REG_AF_SKIP_DEFAULTS, true, false };
        s->nr = 2;
        s->r[0] = mkr(REG_TYPE_FLOAT32, 8, K_RANGE, fb(-2.5f), fb(1000.25f), fb(1.0f));
        s->r[1] = mkr(REG_TYPE_UINT16, 10, K_MAX, 0, 0x00ff, 0x0010);
        break;
    case 16: /* LE, callback-backed area without write callback in front of a memory area: u16 range, u16 max | u16 range, u32 min */
        s->be = false;
        s->na = 2;
        s->a[0] = (struct aspec){ 1, 2, REG_AF_READABLE, true, true };
        s->a[1] = (struct aspec){ 3, 3, REG_AF_RW, false, false };
        s->nr = 4;
        s->r[0] = mkr(REG_TYPE_UINT16, 1, K_RANGE, 5, 10, 7);
        s->r[1] = mkr(REG_TYPE_UINT16, 2, K_MAX, 0, 0x00ff, 0x0010);
        s->r[2] = mkr(REG_TYPE_UINT16, 3, K_RANGE, 0x0100, 0x7f00, 0x0100);
        s->r[3] = mkr(REG_TYPE_UINT32, 4, K_MIN, 0x00010002, 0, 0x7fff0000);
        break;
    case 17: /* LE, memory: u16 range, f64 unconstrained */
        s->be = false;
        s->a[0] = (struct aspec){ 0x30, 5, REG_AF_RW, false, false };
        s->nr = 2;
        s->r[0] = mkr(REG_TYPE_UINT16, 0x30, K_RANGE, 5, 10, 7);
        s->r[1] = mkr(REG_TYPE_FLOAT64, 0x31, K_NONE, 0, 0, db(0.0));
        break;
    case 20: case 21: case 22: case 23: case 24: case 25: case 26:
    case 33: case 34: case 35: case 36: case 37: case 38: {
        /* three adjacent areas of two words (1..2, 3..4, 5..6); bit i of m says
         * whether area i holds registers.  Odd m: memory, even m: callback-backed.
         * 33..38 (thorough): the same with both words of areas 1 and 2 covered by registers */
        const bool rich = ti >= 30;
        const int m = rich ? ti - 31 : ti - 19;
        s->be = (m >> 1) & 1;
        s->na = 3;
        for (int i = 0; i < 3; ++i)
            s->a[i] = (struct aspec){ 1 + 2 * (uint32_t)i, 2, REG_AF_RW, (m & 1) == 0, false };
        s->nr = 0;
        if (m & 1)
            s->r[s->nr++] = mkr(REG_TYPE_UINT32, 1, K_RANGE, 0x00010002, 0x7ffe8001, 0x00010002);
        if (m & 2) {
            if (rich)
                s->r[s->nr++] = mkr(REG_TYPE_UINT16, 3, K_NONE, 0, 0, 0x1234);
            s->r[s->nr++] = mkr(REG_TYPE_UINT16, 4, K_RANGE, 5, 10, 7); /* not rich: word 3 belongs to no register */
        }
        if (m & 4) {
            s->r[s->nr++] = mkr(REG_TYPE_SINT16, 5, K_MIN, 0xffff /* -1 */, 0, 0); /* not rich: word 6 belongs to no register */
            if (rich)
                s->r[s->nr++] = mkr(REG_TYPE_UINT16, 6, K_CB, 0, 0, 0x0002);
        }
        break;
    }
    case 40: /* table 0 at the top of the address space: LE, memory, last word 0xffffffff: u16 range, u32 min, f32 range (ends at 2^32) */
        s->be = false;
        s->a[0] = (struct aspec){ 0xfffffffbu, 5, REG_AF_RW, false, false };
        s->nr = 3;
        s->r[0] = mkr(REG_TYPE_UINT16, 0xfffffffbu, K_RANGE, 0x0100, 0x7f00, 0x0100);
        s->r[1] = mkr(REG_TYPE_UINT32, 0xfffffffcu, K_MIN, 0x00010002, 0, 0x7fff0000);
        s->r[2] = mkr(REG_TYPE_FLOAT32, 0xfffffffeu, K_RANGE, fb(-2.5f), fb(1000.25f), fb(1.0f));
        break;
    case 41: /* BE, callback-backed RW area + read-only memory area that ends at 2^32: u32 range, u16 callback | u16 range, u32 max (last two words) */
        s->be = true;
        s->na = 2;
        s->a[0] = (struct aspec){ 0xfffffffau, 3, REG_AF_RW, true, false };
        s->a[1] = (struct aspec){ 0xfffffffdu, 3, REG_AF_READABLE, false, false };
        s->nr = 4;
        s->r[0] = mkr(REG_TYPE_UINT32, 0xfffffffau, K_RANGE, 0x00010002, 0x7ffe8001, 0x00010002);
        s->r[1] = mkr(REG_TYPE_UINT16, 0xfffffffcu, K_CB, 0, 0, 4);
        s->r[2] = mkr(REG_TYPE_UINT16, 0xfffffffdu, K_RANGE, 5, 10, 7);
        s->r[3] = mkr(REG_TYPE_UINT32, 0xfffffffeu, K_MAX, 0, 0x7ffe8001, 0x00010002);
        break;
    default: /* BE, callback-backed: u64 range alone */
        s->be = true;
        s->a[0] = (struct aspec){ 8, 4, REG_AF_RW, true, false };
        s->nr = 1;
        s->r[0] = mkr(REG_TYPE_UINT64, 8, K_RANGE, 0x0000000100020003ull, 0x7ffe800180028003ull, 0x0000000100020003ull);
        break;
    }
}

/* operand values per register: around the bounds, plus mid values; floats add
 * undecodable patterns */
static int
vals(const struct rspec *r, uint64_t out[MAXVALS])
{
    const RegisterType t = r->type;
    const unsigned w = ref_words(t) * 16;
    const uint64_t m = w == 64 ? ~0ull : ((1ull << w) - 1);
    int n = 0;
    if (t == REG_TYPE_FLOAT32) {
        float lo = r->lo.f32, hi = r->hi.f32;
        if (r->ckind == K_NONE) { lo = -1.0f; hi = 1.0f; }
        if (r->ckind == K_MIN) hi = 64.0f;
        out[n++] = fb(nextafterf(lo, -INFINITY));
        out[n++] = fb(lo);
        out[n++] = fb(0.0f);
        out[n++] = fb(hi);
        out[n++] = fb(nextafterf(hi, INFINITY));
        out[n++] = 0x7fc00000; /* NaN */
        out[n++] = 0x7f800000; /* inf */
        out[n++] = 0x00000001; /* subnormal */
    } else if (t == REG_TYPE_FLOAT64) {
        double lo = r->lo.f64, hi = 64.0;
        out[n++] = db(nextafter(lo, -INFINITY));
        out[n++] = db(lo);
        out[n++] = db(0.0);
        out[n++] = db(hi);
        out[n++] = 0x7ff8000000000000ull;
        out[n++] = 0xfff0000000000000ull;
        out[n++] = 0x0000000000000001ull;
    } else {
        const uint64_t lo = ref_bits(t, r->lo), hi = ref_bits(t, r->hi);
        switch (r->ckind) {
        case K_MIN:
            out[n++] = (lo - 1) & m; out[n++] = lo; out[n++] = (lo + 1) & m;
            out[n++] = type_is_unsigned(t) ? m : (m >> 1);
            out[n++] = type_is_unsigned(t) ? 0 : (m >> 1) + 1;
            break;
        case K_MAX:
            out[n++] = (hi - 1) & m; out[n++] = hi; out[n++] = (hi + 1) & m;
            out[n++] = type_is_unsigned(t) ? 0 : (m >> 1) + 1;
            out[n++] = type_is_unsigned(t) ? m : (m >> 1);
            break;
        case K_RANGE:
            out[n++] = (lo - 1) & m; out[n++] = lo; out[n++] = (hi) & m; out[n++] = (hi + 1) & m;
            out[n++] = type_is_unsigned(t) ? ((lo + hi) / 2) & m : 0;
            break;
        case K_CB:
            out[n++] = 0; out[n++] = 1; out[n++] = 2; out[n++] = m; out[n++] = m - 1;
            break;
        default:
            out[n++] = 0; out[n++] = 0x1234 & m; out[n++] = m;
            break;
        }
    }
    return n;
}

/* bit masks for bit_set / bit_clear */
static int
masks(const struct rspec *r, uint64_t out[4])
{
    const unsigned w = ref_words(r->type) * 16;
    const uint64_t m = w == 64 ? ~0ull : ((1ull << w) - 1);
    int n = 0;
    out[n++] = 1;
    out[n++] = 1ull << (w - 1);
    /* a mask that crosses the bound: the bits in which lo-1/hi+1 differ from lo/hi */
    const uint64_t lo = ref_bits(r->type, r->lo), hi = ref_bits(r->type, r->hi);
    uint64_t x = (r->ckind == K_MIN || r->ckind == K_RANGE) ? (lo ^ ((lo - 1) & m)) : (hi ^ ((hi + 1) & m));
    if (x == 0 || r->ckind == K_NONE || r->ckind == K_CB)
        x = 0x0101 & m;
    out[n++] = x;
    return n;
}

/* ---- state ------------------------------------------------------------------ */
/* The touched marks are not part of the state: no checked operation reads
 * them (they are only set by block writes and cleared by sanitise), so states
 * that differ only in marks have the same futures.  They are set to a known
 * pattern before every operation instead (all clear; all set before sanitise). */
struct key {
    RegisterAtom w[RT_MAXW];
    /* whole-object images (zeroed beyond na + 1 / nr + 1 elements): whatever an
     * operation leaves in the table object, the area descriptors or the entries
     * is part of the state.  The images hold pointers (same objects throughout
     * one process; keys are only compared, never printed). */
    RegisterTable t;
    RegisterArea areas[RT_MAXA + 1];
    RegisterEntry entries[RT_MAXR + 1];
};

/* images of the table object right after setup_table(): part 2 starts every
 * corrupted image from them */
static RegisterTable obj_t;
static RegisterArea obj_areas[RT_MAXA + 1];
static RegisterEntry obj_entries[RT_MAXR + 1];

static void
obj_save(void)
{
    memset(obj_areas, 0, sizeof obj_areas);
    memset(obj_entries, 0, sizeof obj_entries);
    obj_t = tb.t;
    memcpy(obj_areas, tb.areas, (size_t)(spec.na + 1) * sizeof(RegisterArea));
    memcpy(obj_entries, tb.entries, (size_t)(spec.nr + 1) * sizeof(RegisterEntry));
}

static size_t
key_from_tab(struct key *k)
{
    memset(k, 0, sizeof *k);
    touched_restore(&tb, 0); /* marks are not part of the state (see above) */
    flat_snapshot(&tb, k->w);
    memcpy(&k->t, &tb.t, sizeof k->t);
    memcpy(k->areas, tb.areas, (size_t)(spec.na + 1) * sizeof(RegisterArea));
    memcpy(k->entries, tb.entries, (size_t)(spec.nr + 1) * sizeof(RegisterEntry));
    return sizeof *k;
}

static void
tab_from_key(const struct key *k)
{
    flat_restore(&tb, k->w);
    memcpy(&tb.t, &k->t, sizeof tb.t);
    memcpy(tb.areas, k->areas, (size_t)(spec.na + 1) * sizeof(RegisterArea));
    memcpy(tb.entries, k->entries, (size_t)(spec.nr + 1) * sizeof(RegisterEntry));
    tb.cb_fail_read_at = tb.cb_fail_write_at = -1;
    tb.cb_oob = 0;
    touched_restore(&tb, 0);
}

/* key of a storage image on the post-initialisation object images */
static void
key_from_words(struct key *k, const RegisterAtom *w)
{
    memset(k, 0, sizeof *k);
    memcpy(k->w, w, sizeof k->w);
    k->t = obj_t;
    memcpy(k->areas, obj_areas, sizeof k->areas);
    memcpy(k->entries, obj_entries, sizeof k->entries);
}

/* does every constrained register decode and satisfy its constraint? returns
 * the first offending register or -1 */
static int
invariant_violation(void)
{
    for (int r = 0; r < spec.nr; ++r) {
        unsigned char img[8];
        flat_reg_image(&tb, r, img);
        const uint64_t bits = ref_unimage(spec.r[r].type, img, spec.be);
        if (spec.r[r].ckind == K_NONE || spec.r[r].ckind == K_FAIL)
            continue; /* the invariant of the statement is about min/max/range/callback constraints */
        if (!ref_storable(spec.r[r].type, bits) || !ref_constraint(&spec.r[r], ref_from_bits(spec.r[r].type, bits)))
            return r;
    }
    return -1;
}

static uint64_t
reg_bits_now(int r)
{
    unsigned char img[8];
    flat_reg_image(&tb, r, img);
    return ref_unimage(spec.r[r].type, img, spec.be);
}

static void
set_reg_words(RegisterAtom *words, int r, uint64_t bits)
{
    /* words: concatenated snapshot layout */
    unsigned char img[8];
    ref_image(spec.r[r].type, bits, spec.be, img);
    size_t k = 0;
    for (int i = 0; i < spec.na; ++i) {
        if (spec.r[r].addr >= spec.a[i].base && spec.r[r].addr - spec.a[i].base < spec.a[i].size) /* area-relative: base + size may be 2^32 */
            memcpy(&words[k + (spec.r[r].addr - spec.a[i].base)], img, ref_words(spec.r[r].type) * 2);
        k += spec.a[i].size;
    }
}

/* first word (snapshot layout) that belongs to a register and differs, or -1.
 * "All others keep their value" and "change exactly the requested bits" are
 * sentences about registers: words of an area that belong to no register are
 * nobody's value. */
static int
regwords_differ(const RegisterAtom *a, const RegisterAtom *b, size_t total)
{
    for (size_t w = 0; w < total; ++w)
        if (g_regword[w] && a[w] != b[w])
            return (int)w;
    return -1;
}

/* the constraint alone, evaluated on whatever pattern the register holds (an
 * undecodable float pattern is compared as the IEEE value it is): the part of
 * the invariant that is C05's own sentence when C01/C02 would already have
 * refused the operation */
static int
constraint_violation(void)
{
    for (int r = 0; r < spec.nr; ++r) {
        if (spec.r[r].ckind == K_NONE || spec.r[r].ckind == K_FAIL)
            continue;
        if (!ref_constraint(&spec.r[r], ref_from_bits(spec.r[r].type, reg_bits_now(r))))
            return r;
    }
    return -1;
}

/* outcome classes of the tables at the top of the address space (ids 40, 41) */
static const char *
top_class(const char *o)
{
    static const char *const MAP[][2] = {
        { "set-accepted", "top-set-accepted" }, { "set-refused", "top-set-refused" },
        { "bitop-accepted", "top-bitop-accepted" }, { "bitop-refused-constraint", "top-bitop-refused-constraint" },
        { "bitop-refused-operand", "top-bitop-refused-operand" },
        { "block-accepted", "top-block-accepted" }, { "block-refused", "top-block-refused" },
        { "sanitise-clean", "top-sanitise-clean" }, { "sanitise-unspecified", "top-sanitise-unspecified" },
        { "fault-injected", "top-fault-injected" }, { "fault-not-reached", "top-fault-not-reached" },
        { "sanitise-fault-reached", "top-sanitise-fault-reached" }, { "sanitise-fault-not-reached", "top-sanitise-fault-not-reached" },
        { "sanitise-unwritable-corrupted", "top-sanitise-unwritable-corrupted" }, { "sanitise-nothing-to-reset", "top-sanitise-nothing-to-reset" },
        { "sanitise-all-reset", "top-sanitise-all-reset" }, { "sanitise-mixed", "top-sanitise-mixed" },
    };
    for (size_t i = 0; i < sizeof MAP / sizeof MAP[0]; ++i)
        if (!strcmp(o, MAP[i][0]))
            return MAP[i][1];
    return o; /* failed, ?, and the classes do_op already names for these tables */
}

/* ---- operations -------------------------------------------------------------- */
enum opk { O_SET, O_BITSET, O_BITCLR, O_BLOCK, O_SANITISE, O_FAULT };
struct op {
    enum opk k;
    int reg;
    RegisterType vtype;
    uint64_t bits;
    uint32_t addr, n;
    int pat; /* block: pattern selector */
};
static struct op *ops;
static int nops, capops;
static bool g_trivial;    /* do_op: the transition is a trivial case (table out of service after an injected fault) */
static int g_fault_reg;   /* the register the faulted typed set addresses */
static uint32_t g_run_words; /* words of the first run of adjacent areas (the faulted block write covers it) */

static void
push_op(struct op o)
{
    if (nops == capops) {
        capops = capops ? capops * 2 : 256;
        ops = realloc(ops, (size_t)capops * sizeof *ops);
    }
    ops[nops++] = o;
}

static uint64_t V[RT_MAXR][MAXVALS];
static int nV[RT_MAXR];

static void
make_ops(void)
{
    nops = 0;
    for (int r = 0; r < spec.nr; ++r) {
        nV[r] = vals(&spec.r[r], V[r]);
        /* typed operations only on registers of plain read-write areas: what a
         * typed set does to an area without the writable flag is not part of
         * the statement */
        if ((spec.a[flat_area_of(&spec, spec.r[r].addr)].flags & REG_AF_RW) != REG_AF_RW
            || spec.a[flat_area_of(&spec, spec.r[r].addr)].nowrite)
            continue;
        for (int i = 0; i < nV[r]; ++i)
            push_op((struct op){ O_SET, r, spec.r[r].type, V[r][i], 0, 0, 0 });
        /* wrong type: a type of the same width where there is one, else u16 */
        RegisterType wt = spec.r[r].type == REG_TYPE_UINT16 ? REG_TYPE_SINT16
            : spec.r[r].type == REG_TYPE_SINT16 ? REG_TYPE_UINT16
            : spec.r[r].type == REG_TYPE_UINT32 ? REG_TYPE_SINT32
            : spec.r[r].type == REG_TYPE_SINT32 ? REG_TYPE_FLOAT32
            : spec.r[r].type == REG_TYPE_FLOAT32 ? REG_TYPE_UINT32
            : spec.r[r].type == REG_TYPE_UINT64 ? REG_TYPE_SINT64
            : spec.r[r].type == REG_TYPE_SINT64 ? REG_TYPE_FLOAT64 : REG_TYPE_UINT64;
        push_op((struct op){ O_SET, r, wt, ref_bits(spec.r[r].type, spec.r[r].def), 0, 0, 0 });
        uint64_t M[4];
        const int nm = masks(&spec.r[r], M);
        /* the statement's bit-operation clause is about unsigned registers and
         * min/max/range/callback constraints; what a bit operation that changes
         * nothing does on an always-fail register is not specified */
        for (int k = O_BITSET; k <= O_BITCLR && spec.r[r].ckind != K_FAIL; ++k) {
            for (int i = 0; i < nm; ++i)
                push_op((struct op){ (enum opk)k, r, spec.r[r].type, M[i], 0, 0, 0 });
            push_op((struct op){ (enum opk)k, r, wt, 1, 0, 0, 0 });
        }
    }
    /* block writes: every window from one below the first area to one above
     * the last -- a table that ends at 2^32 has no word above it: up to
     * 0xffffffff then.  Sums in 64 bits; no window extends beyond 0xffffffff
     * (a + n <= 2^32). */
    const uint64_t lo = spec.a[0].base ? spec.a[0].base - 1 : 0;
    const uint64_t above = (uint64_t)spec.a[spec.na - 1].base + spec.a[spec.na - 1].size; /* one above the last word */
    const uint64_t hi = above < 0x100000000ull ? above : 0xffffffffull; /* last address a window may cover */
    for (uint64_t a = lo; a <= hi; ++a)
        for (uint64_t n = 1; a + n <= hi + 1; ++n) {
            /* patterns: per overlapped register x each of its values; and "parallel" patterns */
            for (int r = 0; r < spec.nr; ++r) {
                const uint32_t rw = ref_words(spec.r[r].type);
                if ((uint64_t)spec.r[r].addr + rw <= a || a + n <= spec.r[r].addr)
                    continue;
                for (int i = 0; i < nV[r]; ++i)
                    push_op((struct op){ O_BLOCK, r, spec.r[r].type, V[r][i], (uint32_t)a, (uint32_t)n, 0 });
            }
            for (int i = 0; i < 5; ++i)
                push_op((struct op){ O_BLOCK, -1, REG_TYPE_INVALID, 0, (uint32_t)a, (uint32_t)n, 1 + i });
        }
    push_op((struct op){ O_SANITISE, 0, REG_TYPE_INVALID, 0, 0, 0, 0 });
    /* environment deviations on callback-backed areas: one operation during
     * which the k-th area callback answers with an I/O error.  pat selects the
     * operation (0 sanitise, 1 typed set of register 0's default, 2 block
     * write of the current content, 3 get... via bit_set), addr = 0 read / 1 write
     * callback, n = k */
    bool anycb = false;
    g_fault_reg = 0;
    for (int r = spec.nr - 1; r >= 0; --r) {
        const struct aspec *a = &spec.a[flat_area_of(&spec, spec.r[r].addr)];
        if (a->cb && !a->nowrite)
            g_fault_reg = r;
    }
    g_run_words = spec.a[0].size;
    for (int i = 0; i < spec.na; ++i)
        anycb |= spec.a[i].cb;
    for (int i = 1; i < spec.na && spec.a[i].base == spec.a[i - 1].base + spec.a[i - 1].size; ++i)
        g_run_words += spec.a[i].size;
    if (anycb) {
        const uint32_t kmax = spec.nr < 3 ? 3 : (uint32_t)spec.nr;
        for (int what = 0; what < 3; ++what)
            for (uint32_t rw = 0; rw < 2; ++rw)
                for (uint32_t k = 0; k < kmax; ++k)
                    push_op((struct op){ O_FAULT, 0, REG_TYPE_INVALID, 0, rw, k, what });
    }
}

static const char *
op_str(const struct op *o)
{
    static char b[120];
    switch (o->k) {
    case O_SET: snprintf(b, sizeof b, "set(reg%d,%s:%016llx)", o->reg, TYPE_NAME[o->vtype], (unsigned long long)o->bits); break;
    case O_BITSET: snprintf(b, sizeof b, "bit_set(reg%d,%s:%016llx)", o->reg, TYPE_NAME[o->vtype], (unsigned long long)o->bits); break;
    case O_BITCLR: snprintf(b, sizeof b, "bit_clear(reg%d,%s:%016llx)", o->reg, TYPE_NAME[o->vtype], (unsigned long long)o->bits); break;
    case O_BLOCK:
        if (o->pat == 0)
            snprintf(b, sizeof b, "block_write(%s,%u,current+reg%d<-%016llx)", addr_str(o->addr), o->n, o->reg, (unsigned long long)o->bits);
        else
            snprintf(b, sizeof b, "block_write(%s,%u,every-register<-value#%d)", addr_str(o->addr), o->n, o->pat - 1);
        break;
    case O_SANITISE: snprintf(b, sizeof b, "sanitise"); break;
    case O_FAULT:
        snprintf(b, sizeof b, "%s while %s callback #%u answers IO_ERROR", o->pat == 0 ? "sanitise" : o->pat == 1 ? "set(first register of a callback area,default)" : "block_write(first run of adjacent areas,current)",
                 o->addr ? "write" : "read", o->n);
        break;
    }
    return b;
}

/* executes op on the current table state; returns outcome string; sets *ok=false
 * after a recorded failure */
static const char *
do_op(const struct op *o, bool *ok)
{
    RegisterAtom before[RT_MAXW], after[RT_MAXW], expect[RT_MAXW];
    const size_t total = flat_snapshot(&tb, before);
    memcpy(expect, before, sizeof expect);
    const char *outcome = "?";
    g_trivial = false;
    /* how the storage after the operation is judged:
     *   CMP_FULL      every word equals the model's prediction (block write: "exactly those n words change")
     *   CMP_REGWORDS  every word that belongs to a register equals the prediction
     *   CMP_REFUSED   the library refused: no word of the storage changed
     *   CMP_FOREIGN   the library accepted what only C01/C02 forbid: the storage is not predicted,
     *                 the constraints must still hold, the successor is not explored */
    enum { CMP_FULL, CMP_REGWORDS, CMP_REFUSED, CMP_FOREIGN } cmp = CMP_FULL;
    *ok = true;
    tb.cb_oob = 0;
    switch (o->k) {
    case O_SET: {
        const struct rspec *rs = &spec.r[o->reg];
        RegisterValue v;
        memset(&v, 0, sizeof v);
        v.type = o->vtype;
        v.value = ref_from_bits(o->vtype, o->bits);
        const bool accept = o->vtype == rs->type && ref_storable(rs->type, o->bits) && ref_constraint(rs, v.value);
        RegisterAccess a = register_set(&tb.t, (RegisterHandle)o->reg, v);
        mc_log("-> %s@%u", acc(a.code), a.address);
        /* which sets are accepted is C01's sentence.  Where the library
         * disagrees with the reference, C05 judges its own sentences only:
         * refused => nothing changed; accepted => the constraints still hold */
        if (a.code != REG_ACCESS_SUCCESS) {
            outcome = accept ? "set-refused-admissible" : "set-refused";
            cmp = CMP_REFUSED;
        } else if (accept) {
            set_reg_words(expect, o->reg, o->bits);
            outcome = "set-accepted";
            cmp = CMP_REGWORDS;
        } else {
            outcome = "set-accepted-inadmissible";
            cmp = CMP_FOREIGN;
        }
        break;
    }
    case O_BITSET:
    case O_BITCLR: {
        const struct rspec *rs = &spec.r[o->reg];
        RegisterValue v;
        memset(&v, 0, sizeof v);
        v.type = o->vtype;
        v.value = ref_from_bits(o->vtype, o->bits);
        const uint64_t cur = reg_bits_now(o->reg);
        const uint64_t nv = (o->k == O_BITSET) ? (cur | o->bits) : (cur & ~o->bits);
        const bool supported = type_is_unsigned(rs->type) && o->vtype == rs->type;
        const bool accept = supported && ref_constraint(rs, ref_from_bits(rs->type, nv));
        RegisterAccess a = (o->k == O_BITSET) ? register_bit_set(&tb.t, (RegisterHandle)o->reg, v)
                                              : register_bit_clear(&tb.t, (RegisterHandle)o->reg, v);
        mc_log("-> %s@%u", acc(a.code), a.address);
        if (accept) {
            set_reg_words(expect, o->reg, nv);
            outcome = "bitop-accepted";
            cmp = CMP_REGWORDS;
            if (a.code != REG_ACCESS_SUCCESS) {
                mc_fail("C05/bitop-accepts", "admissible %s on %016llx refused with %s", op_str(o), (unsigned long long)cur, acc(a.code));
                *ok = false;
            }
        } else {
            outcome = supported ? "bitop-refused-constraint" : "bitop-refused-operand";
            cmp = CMP_REFUSED;
            if (a.code == REG_ACCESS_SUCCESS) {
                mc_fail(supported ? "C05/bitop-refuses-constraint" : "C05/bitop-refuses-operand", "%s on %016llx succeeded", op_str(o), (unsigned long long)cur);
                *ok = false;
            }
        }
        break;
    }
    case O_BLOCK: {
        RegisterAtom w[RT_MAXW];
        const uint64_t wend = (uint64_t)o->addr + o->n; /* exclusive end of the request, <= 2^32 */
        for (uint32_t i = 0; i < o->n; ++i)
            w[i] = flat_area_of(&spec, o->addr + i) >= 0 ? flat_word(&tb, o->addr + i) : 0xdead;
        for (int r = 0; r < spec.nr; ++r) {
            const uint32_t rw = ref_words(spec.r[r].type);
            if ((uint64_t)spec.r[r].addr + rw <= o->addr || wend <= spec.r[r].addr)
                continue;
            uint64_t bits;
            if (o->pat == 0) {
                if (r != o->reg)
                    continue;
                bits = o->bits;
            } else {
                bits = V[r][(o->pat - 1) % nV[r]];
            }
            unsigned char img[8];
            ref_image(spec.r[r].type, bits, spec.be, img);
            for (uint32_t k = 0; k < rw; ++k) {
                const uint32_t a = spec.r[r].addr + k; /* a word of the register: <= 0xffffffff */
                if (a >= o->addr && a < wend)
                    memcpy(&w[a - o->addr], img + 2 * k, 2);
            }
        }
        RegisterAtom *buf = mc_exact_copy(w, o->n * sizeof(RegisterAtom));
        struct verdict v;
        flat_write_verdict(&tb, o->addr, o->n, buf, &v);
        const bool accept = v.unmapped < 0 && v.readonly < 0 && v.invalid < 0 && v.range < 0;
        RegisterAccess a = register_block_write(&tb.t, o->addr, o->n, buf);
        mc_log("-> %s@%u (reference: unmapped=%ld readonly=%ld invalid=%ld range=%ld)", acc(a.code), a.address, v.unmapped, v.readonly, v.invalid, v.range);
        mc_log_hex("request", w, o->n * 2);
        /* which block writes are accepted, and that they mark the overlapped
         * registers, are C02's sentences; see O_SET */
        if (a.code != REG_ACCESS_SUCCESS) {
            outcome = accept ? "block-refused-admissible"
                : !g_top ? "block-refused"
                : (v.readonly >= 0 && v.unmapped < 0) ? (wend == 0x100000000ull ? "top-block-refused-readonly-to-last-word" : "top-block-refused-readonly")
                : "top-block-refused";
            cmp = CMP_REFUSED;
        } else if (accept) {
            size_t k = 0;
            for (int i = 0; i < spec.na; ++i) {
                for (uint32_t x = 0; x < spec.a[i].size; ++x) {
                    const uint32_t ad = spec.a[i].base + x;
                    if (ad >= o->addr && ad < wend)
                        expect[k + x] = w[ad - o->addr];
                }
                k += spec.a[i].size;
            }
            outcome = (touched_mask(&tb) & v.overlapped) != v.overlapped ? "block-accepted-marks-differ"
                : !g_top ? "block-accepted" : wend == 0x100000000ull ? "top-block-accepted-to-last-word" : "top-block-accepted";
            cmp = CMP_FULL;
        } else {
            outcome = "block-accepted-inadmissible";
            cmp = CMP_FOREIGN;
        }
        free(buf);
        break;
    }
    case O_FAULT: {
        /* an operation during which one area callback fails: the statement says
         * nothing about its result; it is an environment event whose successor
         * state is explored (hidden state it leaves behind shows in later,
         * fault-free operations) */
        tb.cb_reads = tb.cb_writes = 0;
        tb.cb_fail_read_at = o->addr == 0 ? (long)o->n : -1;
        tb.cb_fail_write_at = o->addr == 1 ? (long)o->n : -1;
        RegisterAccess a;
        if (o->pat == 0)
            a = register_sanitise(&tb.t);
        else if (o->pat == 1) {
            RegisterValue v;
            memset(&v, 0, sizeof v);
            v.type = spec.r[g_fault_reg].type;
            v.value = spec.r[g_fault_reg].def;
            a = register_set(&tb.t, (RegisterHandle)g_fault_reg, v);
        } else {
            RegisterAtom *buf = mc_exact_copy(before, g_run_words * sizeof(RegisterAtom));
            a = register_block_write(&tb.t, spec.a[0].base, g_run_words, buf);
            free(buf);
        }
        const bool hit = tab_fault_reached(&tb);
        tb.cb_fail_read_at = tb.cb_fail_write_at = -1;
        mc_log("-> %s@%u (fault %s)", acc(a.code), a.address, hit ? "reached" : "not reached");
        outcome = hit ? "fault-injected" : "fault-not-reached";
        flat_snapshot(&tb, expect); /* nothing demanded of the storage */
        if (hit && tab_out_of_service(&tb)) {
            /* the table -- or one of its areas -- refuses a zero-length or a
             * full-extent block read after the I/O error (fail-safe latch,
             * whatever code it answers with).  No statement mentions driver
             * I/O errors and C05 starts "from a successfully initialised
             * table": the successor is not a state of the statement -- trivial
             * case, not explored.  tab_from_key puts the whole table object
             * (table, areas, entries) back before the next transition. */
            mc_log("the table refuses a zero-length or a full-extent block read of its areas after the injected I/O error: out of service, successor not explored");
            g_trivial = true;
            *ok = false;
            return "latched-after-fault";
        }
        if (invariant_violation() >= 0)
            *ok = false; /* environment-induced: not a violation, but not a clean state either: not explored */
        touched_restore(&tb, 0);
        return outcome;
    }
    case O_SANITISE: {
        touched_restore(&tb, (1u << spec.nr) - 1);
        RegisterAccess a = register_sanitise(&tb.t);
        mc_log("-> %s@%u", acc(a.code), a.address);
        outcome = "sanitise-clean";
        cmp = CMP_REGWORDS;
        if (g_sanitise_unspec) {
            /* the statement's sanitise clause is about tables without always-fail
             * registers; whether the content of a write-only area is content
             * sanitise has to look at is left open as well */
            outcome = "sanitise-unspecified";
            flat_snapshot(&tb, expect);
        } else if (a.code != REG_ACCESS_SUCCESS) {
            mc_fail("C05/sanitise-succeeds", "sanitise of a clean table returned %s", acc(a.code));
            *ok = false;
        } else if (touched_mask(&tb) != 0) {
            mc_fail("C05/sanitise-clears-touched", "touched marks %x after sanitise", touched_mask(&tb));
            *ok = false;
        }
        break;
    }
    }
    flat_snapshot(&tb, after);
    mc_log_hex("storage-after", after, total * 2);
    if (*ok && tb.cb_oob) {
        mc_fail("C05/area-bounds", "%s: area callback asked for words outside its area", op_str(o));
        *ok = false;
    }
    if (*ok && cmp == CMP_FOREIGN) {
        /* accepted although C01/C02 say refuse: C05's own sentence is that the
         * constrained registers still satisfy their constraints.  The state is
         * not one the model vouches for: not explored */
        const int bad = constraint_violation();
        if (bad >= 0)
            mc_fail("C05/invariant", "after %s register %d holds %016llx which violates its constraint", op_str(o), bad, (unsigned long long)reg_bits_now(bad));
        *ok = false;
        return outcome;
    }
    if (*ok && cmp == CMP_REFUSED) {
        if (memcmp(after, before, total * sizeof(RegisterAtom)) != 0) {
            mc_fail("C05/refused-changes-nothing", "%s: storage changed although the operation was refused", op_str(o));
            *ok = false;
        }
    } else if (*ok && (cmp == CMP_FULL ? memcmp(after, expect, total * sizeof(RegisterAtom)) != 0
                                       : regwords_differ(after, expect, total) >= 0)) {
        mc_fail((o->k == O_BITSET || o->k == O_BITCLR) ? "C05/bitop-changes-exactly-the-bits"
                : o->k == O_SANITISE ? "C05/sanitise-keeps-valid" : "C05/accepted-stores-exactly",
                "%s: storage differs from the model's prediction", op_str(o));
        *ok = false;
    }
    if (*ok) {
        const int bad = invariant_violation();
        if (bad >= 0) {
            mc_fail("C05/invariant", "after %s register %d holds %016llx which violates its constraint", op_str(o), bad, (unsigned long long)reg_bits_now(bad));
            *ok = false;
        }
    }
    return outcome;
}

/* ---- part 2: corruption -> sanitise ------------------------------------------ */

/* can sanitise be expected to put a default back into this area?  Yes for
 * areas with a write callback that are flagged writable (SKIP_DEFAULTS or not:
 * the flag is about initialisation).  For an area without write callback it
 * cannot; for an area that is flagged read-only the statement does not say
 * whether sanitise may write to it. */
static bool
area_resettable(const struct aspec *a)
{
    return !a->nowrite && (a->flags & REG_AF_WRITEABLE) != 0;
}

static void
corruption(int ti, bool thorough)
{
    /* flat word index (snapshot layout) -> address, area */
    uint32_t waddr[RT_MAXW];
    int warea[RT_MAXW];
    int wtotal = 0;
    for (int i = 0; i < spec.na; ++i)
        for (uint32_t x = 0; x < spec.a[i].size; ++x) {
            waddr[wtotal] = spec.a[i].base + x;
            warea[wtotal] = i;
            wtotal++;
        }
    /* per-word alphabet; index 0 = keep.  Words of areas that are not
     * corrupted have the one-letter alphabet {keep}. */
    RegisterAtom alpha[RT_MAXW][8];
    int nalpha[RT_MAXW];
    for (int w = 0; w < wtotal; ++w) {
        int n = 0;
        alpha[w][n++] = 0; /* placeholder for keep */
        if (!(g_corrupt_areas & (1u << warea[w]))) {
            nalpha[w] = n;
            continue;
        }
        alpha[w][n++] = 0x0000;
        alpha[w][n++] = 0xffff;
        if (thorough) {
            alpha[w][n++] = 0x7f80;
            alpha[w][n++] = 0x0001;
        }
        /* the word that puts the covering register one past its bound */
        for (int r = 0; r < spec.nr; ++r) {
            const uint32_t rw = ref_words(spec.r[r].type);
            const uint32_t a = waddr[w];
            if (a < spec.r[r].addr || a - spec.r[r].addr >= rw) /* register-relative: addr + rw may be 2^32 */
                continue;
            if (spec.r[r].ckind == K_NONE)
                continue;
            uint64_t past = ref_bits(spec.r[r].type, (spec.r[r].ckind == K_MIN || spec.r[r].ckind == K_RANGE) ? spec.r[r].lo : spec.r[r].hi);
            if (type_is_float(spec.r[r].type)) {
                if (spec.r[r].type == REG_TYPE_FLOAT32) {
                    float f;
                    uint32_t x = (uint32_t)past;
                    memcpy(&f, &x, 4);
                    f = nextafterf(f, (spec.r[r].ckind == K_MAX) ? INFINITY : -INFINITY);
                    past = fb(f);
                } else {
                    double d;
                    memcpy(&d, &past, 8);
                    d = nextafter(d, (spec.r[r].ckind == K_MAX) ? INFINITY : -INFINITY);
                    past = db(d);
                }
            } else
                past += (spec.r[r].ckind == K_MIN || spec.r[r].ckind == K_RANGE) ? -1 : 1;
            unsigned char img[8];
            ref_image(spec.r[r].type, past, spec.be, img);
            RegisterAtom x;
            memcpy(&x, img + 2 * (a - spec.r[r].addr), 2);
            alpha[w][n++] = x;
        }
        nalpha[w] = n;
    }
    /* the two words a case fixes: the first two corrupted ones */
    int f0 = -1, f1 = -1;
    for (int w = 0; w < wtotal; ++w)
        if (nalpha[w] > 1) {
            if (f0 < 0)
                f0 = w;
            else if (f1 < 0)
                f1 = w;
        }
    if (f0 < 0)
        mc_broken("T%d: no corrupted word", ti + 1);
    if (f1 < 0) {
        /* one corrupted word only: the second fixed "word" is a virtual one with the alphabet {keep} */
        f1 = wtotal;
        nalpha[f1] = 1;
    }
    /* fault positions (callback-backed tables): none, k-th write, k-th read */
    bool anycb = false;
    for (int i = 0; i < spec.na; ++i)
        anycb |= spec.a[i].cb;
    const int nfault = anycb ? 1 + 2 * spec.nr : 1;
    /* clean states: every register at each of (default, first valid operand,
     * last valid operand) -- the product; all are valid contents */
    uint64_t C[RT_MAXR][3];
    int nC[RT_MAXR];
    int64_t nstates = 1;
    for (int r = 0; r < spec.nr; ++r) {
        nC[r] = 0;
        C[r][nC[r]++] = ref_bits(spec.r[r].type, spec.r[r].def);
        for (int pass = 0; pass < 2; ++pass)
            for (int i = pass ? nV[r] - 1 : 0; i >= 0 && i < nV[r]; i += pass ? -1 : 1) {
                const uint64_t b = V[r][i];
                if (!ref_storable(spec.r[r].type, b) || !ref_constraint(&spec.r[r], ref_from_bits(spec.r[r].type, b)))
                    continue;
                bool dup = false;
                for (int j = 0; j < nC[r]; ++j)
                    dup |= C[r][j] == b;
                if (!dup && nC[r] < 3)
                    C[r][nC[r]++] = b;
                break;
            }
        if (thorough || r < 2)
            nstates *= nC[r];
    }
    for (int64_t sid = 0; sid < nstates; ++sid) {
        static struct key k; /* static: the object images make a key large */
        {
            /* start from the initialised image, then place the contents */
            RegisterAtom img[RT_MAXW];
            memcpy(img, g_init_image, sizeof img);
            int64_t x = sid;
            for (int r = 0; r < spec.nr; ++r) {
                int sel = 0;
                if (thorough || r < 2) {
                    sel = (int)(x % nC[r]);
                    x /= nC[r];
                }
                set_reg_words(img, r, C[r][sel]);
            }
            key_from_words(&k, img);
        }
        /* one case per choice of two words and of the fault position; the rest enumerated inside */
        for (int c0 = 0; c0 < nalpha[f0]; ++c0)
            for (int c1 = 0; c1 < nalpha[f1]; ++c1)
                for (int fi = 0; fi < nfault; ++fi) {
                    /* quick: fault positions only from the first clean state */
                    if (fi > 0 && !thorough && sid != 0)
                        continue;
                    const int fwrite = fi == 0 ? -1 : (fi - 1) < spec.nr ? fi - 1 : -1;
                    const int fread = fi == 0 ? -1 : (fi - 1) < spec.nr ? -1 : fi - 1 - spec.nr;
                    if (fi == 0) {
                        if (!mc_case("T%d corruption from state#%lld, word%d=%d word%d=%d x all other words", ti + 1, (long long)sid, f0, c0, f1, c1))
                            continue;
                    } else {
                        if (!mc_case("T%d corruption from state#%lld, word%d=%d word%d=%d x all other words, %s callback #%d answers IO_ERROR", ti + 1,
                                     (long long)sid, f0, c0, f1, c1, fwrite >= 0 ? "write" : "read", fwrite >= 0 ? fwrite : fread))
                            continue;
                    }
                    int sel[RT_MAXW] = { 0 };
                    sel[f0] = c0;
                    sel[f1] = c1;
                    bool ok = true;
                    long nreset = 0, nkept = 0, nhit = 0, nunwritable = 0;
                    /* a table with a register in an area that is not flagged
                     * readable: whether that content is content sanitise has to
                     * look at, and what sanitise answers when it does not, is
                     * left open (assumptions; part 1 does not judge sanitise on
                     * such tables either) -- whichever area is corrupted.  No
                     * return code is demanded; registers in readable and
                     * writable areas are judged in full.  Own class. */
                    const bool unreadable = g_sanitise_unspec; /* (tables with always-fail registers do not get here) */
                    for (;;) {
                        /* build corrupted image */
                        static struct key c;
                        c = k;
                        for (int w = 0; w < wtotal; ++w)
                            if (sel[w])
                                c.w[w] = alpha[w][sel[w]];
                        tab_from_key(&c); /* storage and the post-initialisation images of table, areas and entries */
                        touched_restore(&tb, ((1u << spec.nr) - 1) & 0x5u); /* some marks set */
                        /* reference */
                        RegisterAtom expect[RT_MAXW];
                        memcpy(expect, c.w, sizeof expect);
                        bool unwritable = false; /* an invalid register sits where sanitise cannot / need not write */
                        bool was_sane[RT_MAXR];
                        for (int r = 0; r < spec.nr; ++r) {
                            const uint64_t bits = reg_bits_now(r);
                            const bool sane = ref_storable(spec.r[r].type, bits)
                                && ref_constraint(&spec.r[r], ref_from_bits(spec.r[r].type, bits));
                            was_sane[r] = sane;
                            if (!sane) {
                                set_reg_words(expect, r, ref_bits(spec.r[r].type, spec.r[r].def));
                                nreset++;
                                if (!area_resettable(&spec.a[flat_area_of(&spec, spec.r[r].addr)]))
                                    unwritable = true;
                            } else
                                nkept++;
                        }
                        tb.cb_reads = tb.cb_writes = 0;
                        tb.cb_fail_write_at = fwrite;
                        tb.cb_fail_read_at = fread;
                        tb.cb_oob = 0;
                        RegisterAccess a = register_sanitise(&tb.t);
                        const bool hit = (fread >= 0 && tb.cb_reads > fread) || (fwrite >= 0 && tb.cb_writes > fwrite);
                        tb.cb_fail_read_at = tb.cb_fail_write_at = -1;
                        mc_trans(1);
                        /* (a table taken out of service by the I/O error is back for
                         * the next image: tab_from_key restores storage and the
                         * whole table object; this sanitise run is judged as before) */
                        RegisterAtom after[RT_MAXW];
                        const size_t total = flat_snapshot(&tb, after);
                        if (mc.verbose) {
                            mc_log_hex("corrupted", c.w, total * 2);
                            mc_log("-> %s@%u%s", acc(a.code), a.address, hit ? " (fault reached)" : "");
                            mc_log_hex("sanitised", after, total * 2);
                        }
                        nhit += hit;
                        nunwritable += unwritable;
                        if (tb.cb_oob) {
                            mc_fail("C05/area-bounds", "sanitise: area callback asked for words outside its area");
                            ok = false;
                        } else if (unreadable && !hit && !unwritable) {
                            /* sanitise-unspecified table, nothing in the way of a
                             * repair: every register in an area that is flagged
                             * readable and that sanitise can write is reset if it
                             * was invalid and keeps its value otherwise, and its
                             * mark is cleared; the other registers (content
                             * sanitise need not look at) keep a valid value.  The
                             * return code is open (a sanitise that skips the
                             * unreadable registers may report them), and so is
                             * whether sanitise goes on behind the first register
                             * it does not look at: judged in full are the
                             * registers in front of that one. */
                            bool behind = false;
                            for (int r = 0; r < spec.nr && ok; ++r) {
                                const struct aspec *ra = &spec.a[flat_area_of(&spec, spec.r[r].addr)];
                                behind |= !flat_readable(ra);
                                const bool full = !behind && area_resettable(ra) && flat_readable(ra);
                                if (!full && !was_sane[r])
                                    continue;
                                for (int w = 0; w < wtotal && ok; ++w)
                                    if (g_word_reg[w] == r && after[w] != expect[w]) {
                                        if (was_sane[r])
                                            mc_fail("C05/sanitise-keeps-valid", "register %d held a valid value before sanitise and a different one after", r);
                                        else
                                            mc_fail("C05/sanitise-resets-exactly-the-invalid", "register %d (readable and writable area) held an invalid value and does not hold its default after sanitise", r);
                                        ok = false;
                                    }
                                if (ok && full && register_was_touched(&tb.t, (RegisterHandle)r)) {
                                    mc_fail("C05/sanitise-clears-touched", "register %d (readable and writable area) is still marked touched after sanitise", r);
                                    ok = false;
                                }
                            }
                        } else if (hit || unwritable) {
                            /* a reset could not be carried out (I/O error, no write
                             * callback) or the statement leaves open whether it is
                             * (area flagged read-only).  The statement fixes no return
                             * value for an input nobody can repair, and does not say
                             * whether sanitise goes on behind such a register.  What
                             * remains: sanitise must not report success while a register
                             * it could have reset still breaks the invariant; and,
                             * when no callback failed, registers that were valid keep
                             * their value */
                            int bad = -1;
                            for (int r = 0; r < spec.nr && bad < 0; ++r) {
                                if (spec.r[r].ckind == K_NONE || spec.r[r].ckind == K_FAIL)
                                    continue;
                                if (!area_resettable(&spec.a[flat_area_of(&spec, spec.r[r].addr)]))
                                    continue;
                                if (!flat_readable(&spec.a[flat_area_of(&spec, spec.r[r].addr)]))
                                    continue; /* content sanitise need not look at */
                                const uint64_t bits = reg_bits_now(r);
                                if (!ref_storable(spec.r[r].type, bits) || !ref_constraint(&spec.r[r], ref_from_bits(spec.r[r].type, bits)))
                                    bad = r;
                            }
                            if (a.code == REG_ACCESS_SUCCESS && bad >= 0) {
                                mc_fail("C05/sanitise-success-means-invariant", "sanitise returned SUCCESS but register %d (in an area it can write) holds %016llx, which violates its constraint",
                                        bad, (unsigned long long)reg_bits_now(bad));
                                ok = false;
                            }
                            for (int r = 0; r < spec.nr && ok && !hit; ++r) {
                                if (!was_sane[r])
                                    continue;
                                for (int w = 0; w < wtotal && ok; ++w)
                                    if (g_word_reg[w] == r && after[w] != c.w[w]) {
                                        mc_fail("C05/sanitise-keeps-valid", "register %d held a valid value before sanitise and a different one after", r);
                                        ok = false;
                                    }
                            }
                        } else if (a.code != REG_ACCESS_SUCCESS) {
                            mc_fail("C05/sanitise-succeeds", "sanitise returned %s@%u", acc(a.code), a.address);
                            ok = false;
                        } else if (regwords_differ(after, expect, total) >= 0) {
                            mc_fail("C05/sanitise-resets-exactly-the-invalid", "storage after sanitise differs from 'invalid registers at default, all others untouched'");
                            ok = false;
                        } else if (touched_mask(&tb) != 0) {
                            mc_fail("C05/sanitise-clears-touched", "touched marks %x after sanitise", touched_mask(&tb));
                            ok = false;
                        } else if (invariant_violation() >= 0) {
                            mc_fail("C05/invariant", "invariant does not hold after sanitise");
                            ok = false;
                        }
                        if (!ok)
                            break;
                        /* next combination of the other words */
                        int w = 0;
                        while (w < wtotal) {
                            if (w == f0 || w == f1 || nalpha[w] == 1) {
                                w++;
                                continue;
                            }
                            if (++sel[w] < nalpha[w])
                                break;
                            sel[w] = 0;
                            w++;
                        }
                        if (w >= wtotal)
                            break;
                    }
                    const char *cls = !ok ? "failed"
                           : unreadable ? "sanitise-unspecified"
                           : fi > 0 ? (nhit ? "sanitise-fault-reached" : "sanitise-fault-not-reached")
                           : nunwritable ? "sanitise-unwritable-corrupted"
                           : nreset == 0 ? "sanitise-nothing-to-reset" : nkept == 0 ? "sanitise-all-reset" : "sanitise-mixed";
                    mc_end(true, g_top ? top_class(cls) : cls);
                }
    }
}

static bool
setup_table(int ti)
{
    make_table(ti, &spec);
    g_has_fail = false;
    for (int r = 0; r < spec.nr; ++r)
        g_has_fail |= spec.r[r].ckind == K_FAIL;
    g_sanitise_unspec = g_has_fail;
    for (int r = 0; r < spec.nr; ++r)
        if (!(spec.a[flat_area_of(&spec, spec.r[r].addr)].flags & REG_AF_READABLE))
            g_sanitise_unspec = true;
    /* part 2 corrupts the first area; tables built for it: more */
    g_corrupt_areas = 1u;
    if (ti == 5 || ti == 6 || ti == 14 || ti == 16 || ti == 41)
        g_corrupt_areas = 3u;
    g_top = (uint64_t)spec.a[spec.na - 1].base + spec.a[spec.na - 1].size == 0x100000000ull;
    if (ti >= 20 && ti <= 38)
        g_corrupt_areas = 7u;
    tab_build(&tb, &spec);
    RegisterInit ri = register_init(&tb.t);
    nwords = 0;
    for (int i = 0; i < spec.na; ++i)
        nwords += (int)spec.a[i].size;
    if (ri.code != REG_INIT_SUCCESS)
        return false;
    /* areas that initialisation does not fill (defaults skipped, or no write
     * callback) stand for a device / a memory that holds valid content: zero
     * where zero is valid, else the default.  Installed out of band for
     * memory-backed areas as well: what register_init leaves in an area whose
     * defaults it skips is not part of the statement */
    for (int ai = 0; ai < spec.na; ++ai)
        if (spec.a[ai].nowrite || (spec.a[ai].flags & REG_AF_SKIP_DEFAULTS)) {
            memset(tb.store[ai], 0, spec.a[ai].size * sizeof(RegisterAtom));
            for (int r = 0; r < spec.nr; ++r) {
                if (flat_area_of(&spec, spec.r[r].addr) != ai)
                    continue;
                if (!ref_constraint(&spec.r[r], ref_from_bits(spec.r[r].type, 0))) {
                    unsigned char img[8];
                    ref_image(spec.r[r].type, ref_bits(spec.r[r].type, spec.r[r].def), spec.be, img);
                    memcpy(tb.store[ai] + (spec.r[r].addr - spec.a[ai].base), img, ref_words(spec.r[r].type) * 2);
                }
            }
        }
    /* words outside registers start from zero (whether initialisation clears
     * them is not part of the statement either) */
    {
        int k = 0;
        for (int ai = 0; ai < spec.na; ++ai)
            for (uint32_t w = 0; w < spec.a[ai].size; ++w, ++k) {
                g_regword[k] = false;
                g_word_reg[k] = -1;
                for (int r = 0; r < spec.nr; ++r)
                    if (spec.a[ai].base + w >= spec.r[r].addr && spec.a[ai].base + w - spec.r[r].addr < ref_words(spec.r[r].type)) {
                        g_regword[k] = true;
                        g_word_reg[k] = r;
                    }
                if (!g_regword[k])
                    tb.store[ai][w] = 0;
            }
    }
    memset(g_init_image, 0, sizeof g_init_image);
    flat_snapshot(&tb, g_init_image);
    touched_restore(&tb, 0);
    obj_save();
    make_ops();
    return true;
}

static void
run_table(int ti, int part)
{
    if (!mc_partition(part, ti))
        return;
    const bool up = setup_table(ti);
    mc_case("T%d %s initialisation", ti + 1, tspec_str(&spec));
    if (!up) {
        /* whether initialisation accepts a table is C04's sentence; the
         * statement here starts from a successfully initialised table */
        mc_end(false, "init-refused");
        tab_free(&tb);
        return;
    }
    if (invariant_violation() >= 0)
        mc_fail("C05/invariant", "invariant does not hold after initialisation");
    mc_end(true, "init");

    /* imgs: the distinct storage images among the states.  A successor is only
     * stored after its storage agreed with the model, so imgs is bounded by the
     * model's reachable set; set.n / imgs.n is the number of table-object
     * variants per storage image (1 on a library that keeps nothing but marks
     * in its objects).  Objects that never repeat (change counters,
     * statistics) give no fixpoint: stop at once with a cap. */
    struct mc_set set, imgs;
    mc_set_init(&set);
    mc_set_init(&imgs);
    static struct key k0, k, nk;
    bool capped = false;
    key_from_tab(&k0);
    mc_set_add(&set, &k0, sizeof k0, -1, -1, NULL);
    mc_set_add(&imgs, k0.w, sizeof k0.w, -1, -1, NULL);
    for (int64_t cur = 0; cur < (int64_t)set.n && !capped; ++cur) {
        memcpy(&k, mc_set_key(&set, cur), sizeof k);
        char path[160] = "";
        for (int oi = 0; oi < nops; ++oi) {
            if (mc_would_run() && path[0] == 0)
                mc_set_path(&set, cur, path, sizeof path);
            mc_case("T%d state#%lld path=[%s] op=%d:%s", ti + 1, (long long)cur, path, oi, op_str(&ops[oi]));
            mc_trans(1);
            tab_from_key(&k);
            bool ok;
            const char *outcome = do_op(&ops[oi], &ok);
            if (ok) {
                key_from_tab(&nk);
                mc_set_add(&set, &nk, sizeof nk, cur, oi, NULL);
                mc_set_add(&imgs, nk.w, sizeof nk.w, -1, -1, NULL);
            }
            mc_end(!g_trivial, g_top ? top_class(outcome) : outcome);
            if ((int64_t)set.n > STATE_FACTOR * (int64_t)imgs.n + 64) {
                mc_cap("T%d: %lld states over %lld distinct storage images -- the image of the table object (RegisterTable, areas, entries) does not repeat (it carries counters?); search of this table stopped, no fixpoint",
                       ti + 1, (long long)set.n, (long long)imgs.n);
                capped = true;
                break;
            }
        }
        if (set.n > 2000000) {
            mc_cap("state cap 2000000 hit on T%d", ti + 1);
            break;
        }
    }
    mc.states += (int64_t)set.n;
    mc_set_free(&set);
    mc_set_free(&imgs);
    tab_free(&tb);
}

static void
run_corruption(int ti, bool thorough)
{
    mc_partition(-1, CORRUPTION_BASE + ti);
    if (mc.only >= 0 && (mc.only >> 40) != CORRUPTION_BASE + ti)
        return;
    if (!setup_table(ti)) {
        tab_free(&tb);
        return; /* trivial case of part 1 */
    }
    if (!g_has_fail)
        corruption(ti, thorough);
    tab_free(&tb);
}

int
main(int argc, char **argv)
{
    mc_init(argc, argv);
    const int *ids = mc_thorough() ? THOROUGH_IDS : QUICK_IDS;
    const int ntables = mc_thorough() ? (int)(sizeof THOROUGH_IDS / sizeof THOROUGH_IDS[0]) : (int)(sizeof QUICK_IDS / sizeof QUICK_IDS[0]);
    /* the largest searches first, so that the shards are busy evenly */
    for (int i = ntables - 1; i >= 0; --i)
        run_table(ids[i], i);
    for (int i = 0; i < ntables; ++i)
        run_corruption(ids[i], mc_thorough());
    char bound[1700];
    snprintf(bound, sizeof bound, "%d tables (%s; two tables at the top of the address space -- last word 0xffffffff, one with a read-only last area -- with every block-write window from one below the first area up to 0xffffffff, address+length <= 2^32, and the corruption part); fixpoint (state = storage + object images of table, areas, entries; per-table state cap 2^(areas+1) x distinct storage images + 64) over typed set / bit set / bit clear / block write (every window) / sanitise with boundary operands and one-fault environment operations (sanitise, typed set, block write with the k-th read or write callback failing, k < max(3, registers)) on callback-backed tables; corruption: every image over %s per word of the corrupted areas from every combination of valid contents of %s, sanitise once without fault and (callback-backed tables%s) once per single read / write fault position",
             ntables,
             mc_thorough() ? "the quick ones + three with 3-4 registers over 7-10 words + six three-area tables with two registers per populated area" : "nine small ones, write-only areas, SKIP_DEFAULTS areas, an area without write callback, unconstrained f64, three adjacent areas with every subset entry-less",
             mc_thorough() ? "{keep,0000,ffff,7f80,0001,one-past-bound}" : "{keep,0000,ffff,one-past-bound}",
             mc_thorough() ? "all registers (default / first / last valid operand)" : "the first two registers",
             mc_thorough() ? "" : ", from the first clean state");
    mc_finish(true, bound);
    return 0;
}
